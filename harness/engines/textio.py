"""Engine `textio`: the textual half of C06 -- tree_to_newick / newick_to_tree and
print_tree (yield_tree) / str_to_tree (default branch, tree_prefix_list=[]).

Every case is run on the real bigtree: the tree is exported, and the implementation's own text is fed
back to the implementation's matching parser; the text (code points) and the pre-order
(depth, name, attrs) of the rebuilt tree are observed.  Coq (Corr/TextIOCorr.v) compares both with the
models of Algo/TextIO.v and evaluates the predicates of Spec/PC06Text.v on the implementation's outputs.
"""
import io
import math
import re

from ..core import cbool, clist, cnat, copt, cpair, cstr, cZ
from ._base import *  # noqa
from ._base import COMMON_TB

CASES_PER_FILE = 150
SERVES = ["C06"]
COQ_TARGETS = ["theories/Corr/TextIOCorr.vo", "theories/Props/C06_text.vo"]

STYLE_NAMES = ["ansi", "ascii", "const", "const_bold", "rounded", "double"]
# (branch, final stem) of the built-in styles, written out here (not read from bigtree)
STYLE_GLYPHS = [("|-- ", "`-- "), ("|-- ", "+-- "), ("\u251c\u2500\u2500 ", "\u2514\u2500\u2500 "),
                ("\u2523\u2501\u2501 ", "\u2517\u2501\u2501 "), ("\u251c\u2500\u2500 ", "\u2570\u2500\u2500 "),
                ("\u2560\u2550\u2550 ", "\u255a\u2550\u2550 ")]


def coq_header(prop):
    return "From BT Require Import Base.Prelude Base.Str Base.Rose Algo.TextIO Corr.TextIOCorr."


def coq_case_type(prop):
    return "tcase"


def coq_check(prop):
    return "check_C06_text"


# ---------------------------------------------------------------------------------------------
# implementation side


def _build(tj, cls):
    name, attrs, kids = tj
    n = cls(name, **attrs)
    n.children = [_build(k, cls) for k in kids]
    return n


def _build_binary(tj, cls):
    """BinaryNode tree: an only child goes to the right slot when its name has odd length"""
    name, attrs, kids = tj
    n = cls(name, **attrs)
    ks = [_build_binary(k, cls) for k in kids]
    if len(ks) == 1:
        ks = [None, ks[0]] if len(kids[0][0]) % 2 else [ks[0], None]
    if ks:
        n.children = ks
    return n


_DEC = re.compile(r"-?\d+\.\d+\Z")
_EXP = re.compile(r"(-?)(\d+)(?:\.(\d+))?e([+-]\d+)\Z")


def _float(v):
    """the exact decimal value of repr(v) as a fraction: positional [-]ddd.ddd -> (digits without the dot, 10^k);
    exponent form -> mantissa digits x 10^exponent, as a fraction with a power of ten as denominator"""
    r = repr(v)
    if _DEC.match(r):
        k = len(r) - r.index(".") - 1
        return {"float": [int(r.replace(".", "")), 10 ** k]}
    m = _EXP.match(r)
    if m:
        sign, ip, fp, e = m.group(1), m.group(2), m.group(3) or "", int(m.group(4))
        num, p = int(sign + ip + fp), e - len(fp)
        num, den = (num * 10 ** p, 1) if p >= 0 else (num, 10 ** (-p))
        return {"float": [num, den]}
    return {"float": [0, 0]}


def _val(v):
    if isinstance(v, float):
        return _float(v)
    if v is None or isinstance(v, (bool, int, str)):
        return v
    return {"other": type(v).__name__}


class Unobservable(Exception):
    pass


def _observe(root, cls=None):
    from bigtree.utils.iterators import preorder_iter
    if root.parent is not None:
        raise Unobservable("the constructor returned a node that is not a root")
    if cls is not None:
        bad = [type(n).__name__ for n in preorder_iter(root) if type(n) is not cls]
        if bad:
            raise Unobservable(f"node_type not honoured: {bad[:3]}")
    d0 = root.depth
    out = []
    for n in preorder_iter(root):
        attrs = n.describe(exclude_prefix="_", exclude_attributes=["name"])
        out.append([n.depth - d0, n.node_name, [[k, _val(v)] for k, v in attrs]])
    return out


def _snapshot(root):
    from bigtree.utils.iterators import preorder_iter
    top = root.root
    return [(id(n), id(n.parent), n.node_name, sorted((k, repr(v)) for k, v in n.__dict__.items() if not k.startswith("_")),
             [id(c) for c in n.children]) for n in preorder_iter(top)]


def run_impl(prop, case):
    from bigtree.node.binarynode import BinaryNode
    from bigtree.node.node import Node
    from bigtree.tree.construct import newick_to_tree, str_to_tree
    from bigtree.tree.export import print_tree, tree_to_newick
    from bigtree.utils import constants

    class Sub(Node):
        """a user subclass handed to the constructors as node_type"""

    class ValueEq(Node):
        """a user subclass with value semantics: nodes with the same name compare (and hash) equal"""

        def __eq__(self, other):
            return isinstance(other, Node) and other.node_name == self.node_name

        def __hash__(self):
            return hash(self.node_name)

    kind = case["kind"]
    if case.get("subclass") == "ve":
        Sub = ValueEq          # noqa: F811
    in_cls = ValueEq if case.get("subclass") == "ve" else Node
    ntype = Sub if case.get("subclass") else None
    tkw = {"node_type": Sub} if ntype else {}
    if kind == "nw":
        root = _build(case["tree"], in_cls)
        if not case["isroot"]:
            holder = Node("holder")
            root.parent = holder
        cfg = case["cfg"]
        kw = dict(intermediate_node_name=cfg["inter"], length_attr=cfg["len"], length_sep=cfg["lsep"],
                  attr_list=list(cfg["attrs"]), attr_prefix=cfg["prefix"], attr_sep=cfg["asep"])
        pkw = dict(length_attr=cfg["len"] or "length", attr_prefix=cfg["prefix"])
        if case.get("defaults"):
            # leave every argument that has its default value to the callee (enum-valued defaults)
            dflt = dict(intermediate_node_name=True, length_attr="", length_sep=":", attr_list=[],
                        attr_prefix="&&NHX:", attr_sep=":")
            kw = {k: v for k, v in kw.items() if v != dflt[k]}
            pkw = {k: v for k, v in pkw.items() if v != dict(length_attr="length", attr_prefix="&&NHX:")[k]}
        before = _snapshot(root)
        try:
            out = tree_to_newick(root, **kw)
        except Exception:
            out = None
        if out is not None and not isinstance(out, str):
            return {"_harness_error": "tree_to_newick returned " + type(out).__name__}
        if _snapshot(root) != before:
            return {"_harness_error": "tree_to_newick changed its input tree"}
        try:
            again = tree_to_newick(root, **kw)
        except Exception:
            again = None
        if again != out:
            return {"_harness_error": "tree_to_newick is not repeatable on the same tree"}
        if out is None:
            return {"out": None, "back": None}
        try:
            back = _observe(newick_to_tree(out, **pkw, **tkw), ntype)
        except Unobservable as e:
            return {"_harness_error": str(e)}
        except Exception:
            back = None
        return {"out": out, "back": back}
    if kind == "nwparse":
        try:
            back = _observe(newick_to_tree(case["s"], length_attr=case["la"], attr_prefix=case["pf"], **tkw), ntype)
        except Unobservable as e:
            return {"_harness_error": str(e)}
        except Exception:
            back = None
        return {"back": back}
    if kind == "pr":
        if case.get("binary"):
            root = _build_binary(case["tree"], BinaryNode)
        else:
            root = _build(case["tree"], in_cls)
        if not case.get("isroot", True):
            holder = Node("holder")
            Node("elder", parent=holder)
            root.parent = holder
            Node("younger", parent=holder)
        st = case["style"]
        if st[0] == "name":
            style = STYLE_NAMES[st[1]]
        elif st[0] == "object":
            style = [constants.ANSIPrintStyle, constants.ASCIIPrintStyle, constants.ConstPrintStyle,
                     constants.ConstBoldPrintStyle, constants.RoundedPrintStyle, constants.DoublePrintStyle][st[1]]
        else:
            style = list(st[1:])
        kw = {"style": style}
        if case.get("md", 0):
            kw["max_depth"] = case["md"]
        before = _snapshot(root)
        outs = []
        for _ in range(2):
            buf = io.StringIO()
            try:
                print_tree(root, file=buf, **kw)
                outs.append(buf.getvalue())
            except Exception:
                outs.append(None)
        if _snapshot(root) != before:
            return {"_harness_error": "print_tree changed its input tree"}
        if outs[0] != outs[1]:
            return {"_harness_error": "print_tree is not repeatable on the same tree"}
        out = outs[0]
        if out is None:
            return {"out": None, "back": None}
        pkw = {"tree_prefix_list": list(case["plist"])} if case.get("plist") else {}
        try:
            back = _observe(str_to_tree(out, **pkw, **tkw), ntype)
        except Unobservable as e:
            return {"_harness_error": str(e)}
        except Exception:
            back = None
        return {"out": out, "back": back}
    if kind == "stparse":
        pkw = {"tree_prefix_list": list(case["plist"])} if case.get("plist") else {}
        try:
            back = _observe(str_to_tree(case["s"], **pkw, **tkw), ntype)
        except Unobservable as e:
            return {"_harness_error": str(e)}
        except Exception:
            back = None
        return {"back": back}
    raise ValueError(kind)


# ---------------------------------------------------------------------------------------------
# Coq literals


def _cval(v):
    if v is None:
        return "VNone"
    if isinstance(v, bool):
        return f"VBool {cbool(v)}"
    if isinstance(v, int):
        return f"VInt {cZ(v)}"
    if isinstance(v, float):
        v = _float(v)
        return f"VFloat {cZ(v['float'][0])} {cZ(v['float'][1])}"
    if isinstance(v, str):
        return f"VStr {cstr(v)}"
    if isinstance(v, dict) and "float" in v:
        return f"VFloat {cZ(v['float'][0])} {cZ(v['float'][1])}"
    raise TypeError(f"value not encodable: {v!r}")


def _cattrs(items):
    return clist(f"({cstr(k)}, {_cval(v)})" for k, v in items)


def _ctree(tj, counter):
    name, attrs, kids = tj
    i = counter[0]
    counter[0] += 1
    ks = clist(_ctree(k, counter) for k in kids)
    return f"T (Some {i}) {cstr(name)} {_cattrs(sorted(attrs.items()))} {ks}"


def _cobs(back):
    if back is None:
        return "None"
    return "(Some " + clist(f"({int(d)}, {cstr(n)}, {_cattrs(a)})" for d, n, a in back) + ")"


def _cout(out):
    return "None" if out is None else f"(Some {cstr(out)})"


def emit(prop, case, obs):
    kind = case["kind"]
    if kind == "nw":
        c = case["cfg"]
        cfg = (f"(NwCfg {cbool(c['inter'])} {cstr(c['len'])} {cstr(c['lsep'])} "
               f"{clist(cstr(k) for k in c['attrs'])} {cstr(c['prefix'])} {cstr(c['asep'])})")
        return (f"CNewick {cfg} {cbool(case['isroot'])} ({_ctree(case['tree'], [0])}) "
                f"{_cout(obs['out'])} {_cobs(obs['back'])}")
    if kind == "nwparse":
        return f"CNwParse {cstr(case['la'])} {cstr(case['pf'])} {cstr(case['s'])} {_cobs(obs['back'])}"
    if kind == "pr":
        st = case["style"]
        sa = (f"(SName {st[1]})" if st[0] in ("name", "object")
              else f"(SCustom {cstr(st[1])} {cstr(st[2])} {cstr(st[3])})")
        pl = clist(cstr(p) for p in case.get("plist", []))
        return (f"CPrint {sa} {int(case.get('md', 0))} {pl} ({_ctree(case['tree'], [0])}) "
                f"{_cout(obs['out'])} {_cobs(obs['back'])}")
    if kind == "stparse":
        pl = clist(cstr(p) for p in case.get("plist", []))
        return f"CStParse {pl} {cstr(case['s'])} {_cobs(obs['back'])}"
    raise ValueError(kind)


# ---------------------------------------------------------------------------------------------
# generation

# inside the Newick alphabet (no quote character)
NW_POOLS = {
    "distinct": ["a", "b", "c", "d", "e", "f", "g", "h", "i", "j", "k", "l"],
    "repeated": ["a", "b", "a", "c", "b", "a", "c", "b", "a", "c", "a", "b"],
    "affix": ["a", "xa", "ab", "b", "bc", "abc", "c", "xab", "ba", "x", "bx", "cab"],
    "special": ["a:b", "(", ")", "[x]", "a,b", "k=v", "a b", " lead", "trail ", "a;", "node0", "0", "12",
                "x\"y", "été", "a(b)c", ":", ",", "=", "[", "]", "a\tb", "1.5", "-3", "q,", "a:", "(x", "y)", " ", "007",
                "argv[1]", "docs [draft]", "x[0]", "x[1]", "a [k=v]", "b[&&NHX:k=v]", "c:1[x]", "1e-05", "1e+16", "-2",
                "( a , b )", "a;b;", "a  b", "[]", "()"],
}
# outside it: names containing the quote character
NW_QUOTED = ["a'b", "'", "it's", "'a'", "x:'y"]

# inside the str_to_tree alphabet: printable ASCII, non-empty, no leading blank
PR_POOLS = {
    "distinct": NW_POOLS["distinct"],
    "repeated": NW_POOLS["repeated"],
    "affix": NW_POOLS["affix"],
    "special": ["a b", "a.b", "(x)", "+", "trail ", "a'b", "x\"y", "|--", "`-- a", "a  b", "0", "12", "-", "a/b",
                "[k=v]", "node0", "~", "|", "a:b", "+-- q",
                "argv[1]", "docs [draft]", "x[0]", "x[1]", "a [age=90]", "b [x=1, y=2]", "c *(k=v)", "k [", "] z", "a[]",
                "1", "1.5", "1e-05", "-2", "a (b)", "e [draft] v2"],
}
# outside it
PR_OUT = [" lead", "été", "a│b", "\tq", "a\nb", "  x", "├── z", "a ", "x ├── y", "p└──", "╠══ w"]

ATTR_KEYS = ["k", "sp", "B", "a:b", "x y", "k=1", "names", "n", "path", "x", "name_en", "seps"]
ATTR_VALS_IN = ["human", "v", "x:y", "a b", "(1)", "7", "p=q", "[z]", "u,v", "w\"w", "v[1]", "1e-05", "[draft]", "0"]
ATTR_VALS_OUT = [5, 0, True, False, "", "it's", -2]


def _shape(rng, kind, nmax):
    """children lists by node index, node 0 is the root, indices in creation order"""
    n = rng.randint(2, nmax)
    kids = [[] for _ in range(n)]
    depth = [0] * n
    if kind == "path":
        for i in range(1, n):
            kids[i - 1].append(i)
    elif kind == "star":
        for i in range(1, n):
            kids[0].append(i)
    elif kind == "wide":
        for i in range(1, n):
            cands = [p for p in range(i) if len(kids[p]) < 6 and depth[p] < 3]
            wide = [p for p in cands if 1 <= len(kids[p])]
            p = rng.choice(wide) if wide and rng.random() < 0.7 else rng.choice(cands)
            kids[p].append(i)
            depth[i] = depth[p] + 1
    elif kind == "deep":
        for i in range(1, n):
            cands = [p for p in range(i) if depth[p] < 8]
            deepest = max(depth[p] for p in cands)
            if rng.random() < 0.7:
                cands = [p for p in cands if depth[p] == deepest]
            p = rng.choice(cands)
            kids[p].append(i)
            depth[i] = depth[p] + 1
    elif kind == "comb":
        # a deep spine with side leaves: last children at depth >= 4, dedents of several levels
        spine = [0]
        for i in range(1, n):
            if rng.random() < 0.6 or len(spine) == 1 and not kids[0]:
                p = spine[-1]
                kids[p].append(i)
                spine.append(i)
            else:
                p = rng.choice(spine[:-1]) if len(spine) > 1 else 0
                kids[p].append(i)
    else:  # mixed
        for i in range(1, n):
            p = rng.randrange(i)
            kids[p].append(i)
    return kids


def _to_tree(kids, names, attrs, i=0):
    return [names[i], attrs[i], [_to_tree(kids, names, attrs, k) for k in kids[i]]]


def _names(rng, kids, pool, extra=None, extra_rate=0.0):
    """names drawn from the pool (cyclically, from a random offset); sibling names kept distinct"""
    n = len(kids)
    off = rng.randrange(len(pool))
    names = [pool[(off + i) % len(pool)] for i in range(n)]
    if rng.random() < 0.5:
        rng.shuffle(names)
    if extra:
        for i in range(n):
            if rng.random() < extra_rate:
                names[i] = rng.choice(extra)
    for p in range(n):
        seen = set()
        for c in kids[p]:
            k = 0
            base = names[c]
            while names[c] in seen:
                k += 1
                names[c] = base + str(k)
            seen.add(names[c])
    return names


SHAPES = ["wide", "deep", "mixed", "path", "star", "comb"]


def gen_newick(rng, nmax=11):
    shape = rng.choice(SHAPES)
    kids = _shape(rng, shape, nmax)
    n = len(kids)
    pool_name = rng.choice(["distinct", "repeated", "affix", "special", "special"])
    r = rng.random()
    quoted = r < 0.08
    names = _names(rng, kids, NW_POOLS[pool_name], NW_QUOTED if quoted else None, 0.3)
    attrs = [dict() for _ in range(n)]
    cfg = {"inter": True, "len": "", "lsep": ":", "attrs": [], "prefix": "&&NHX:", "asep": ":"}
    mode = rng.choice(["plain"] * 8 + ["nointer"] * 2 + ["len"] * 3 + ["attrs"] * 4 + ["both"] * 2 + ["seps"])
    label = mode
    if mode == "nointer":
        cfg["inter"] = False
    if mode in ("len", "both", "seps"):
        cfg["len"] = rng.choice(["length", "age", "L"])
        bad = rng.random() < 0.12
        floats = rng.random() < 0.18
        for i in range(n):
            attrs[i][cfg["len"]] = rng.choice([1, 7, 40, 65, 100, 999, 12345])
            if floats and rng.random() < 0.6:
                attrs[i][cfg["len"]] = (rng.choice([0.5, 2.0, 1.25, 12.5, 0.05, 100.0, 3.75, 1e-05, -1.5, 1e+16, 2.5e-07, -3e+20,
                                                     1234567.5, 0.0001, 1e+22, 1e+15, 123456789012345.0, 0.00012, 9.5e-05])
                                         if rng.random() < 0.6 else
                                         float(f"{rng.choice(['', '-'])}{rng.randint(1, 99999)}e{rng.randint(-24, 24)}"))
        if floats:
            label += "/len-float"
        if bad:
            i = rng.randrange(n)
            choice = rng.choice(["zero", "missing", "str", "neg", "true"])
            if choice == "missing":
                del attrs[i][cfg["len"]]
            else:
                attrs[i][cfg["len"]] = {"zero": 0, "str": "x1", "neg": -5, "true": True}[choice]
            label += "/len-out"
    if mode in ("attrs", "both", "seps"):
        ks = rng.sample(ATTR_KEYS, rng.randint(1, 3))
        cfg["attrs"] = ks
        cfg["prefix"] = rng.choice(["&&NHX:", "&&NHX:", "", "&&", "p:"])
        out = rng.random() < 0.12
        for i in range(n):
            for k in ks:
                u = rng.random()
                if u < 0.65:
                    attrs[i][k] = rng.choice(ATTR_VALS_IN)
                elif u < 0.75:
                    attrs[i][k] = None
            # attributes that are not requested must not leak into the export
            if rng.random() < 0.2:
                attrs[i]["other"] = "zz"
        if out:
            attrs[rng.randrange(n)][rng.choice(ks)] = rng.choice(ATTR_VALS_OUT)
            label += "/attr-out"
    if mode == "seps":
        if rng.random() < 0.5:
            cfg["lsep"] = rng.choice(["|", "::", ""])
        else:
            cfg["asep"] = rng.choice(["|", ";", ""])
    if rng.random() < 0.15:
        cfg["inter"] = cfg["inter"] and rng.random() < 0.7
    isroot = rng.random() >= 0.15
    if quoted:
        label += "/quote-out"
    case = {"kind": "nw", "tree": _to_tree(kids, names, attrs), "cfg": cfg, "isroot": isroot,
            "defaults": rng.random() < 0.5, "subclass": rng.choice([False, False, True, "ve"])}
    return f"newick/{shape}/{pool_name}/{label}", case


def gen_print(rng, nmax=11):
    shape = rng.choice(SHAPES)
    kids = _shape(rng, shape, nmax)
    n = len(kids)
    pool_name = rng.choice(["distinct", "repeated", "affix", "special", "special"])
    outside = rng.random() < 0.08
    names = _names(rng, kids, PR_POOLS[pool_name], PR_OUT if outside else None, 0.25)
    attrs = [dict() for _ in range(n)]
    u = rng.random()
    if u < 0.72:
        style = ["name", rng.choice([2, 2, 2, 3, 4, 5])]
        lab = STYLE_NAMES[style[1]]
    elif u < 0.84:
        style = ["name", rng.choice([0, 1])]
        lab = STYLE_NAMES[style[1]] + "(ascii-prefix)"
    elif u < 0.96:
        style = rng.choice([
            ["custom", "│ ", "├ ", "└ "],
            ["custom", "│", "├", "└"],
            ["custom", "┃     ", "┣━━━━ ", "┗━━━━ "],
            ["custom", "  ", "  ", "  "],
            ["custom", "··", "··", "··"],
        ])
        lab = "custom"
    else:
        style = rng.choice([
            ["custom", "| ", "|-", "`-"],
            ["custom", "│  ", "├─ ", "└ "],      # different lengths: ValueError
            ["custom", "", "", ""],
            ["custom", ". ", "├ ", "└ "],
        ])
        lab = "custom-out"
    if outside:
        lab += "/name-out"
    case = {"kind": "pr", "tree": _to_tree(kids, names, attrs), "style": style}
    if style[0] == "name" and rng.random() < 0.2:
        case["style"] = ["object", style[1]]          # constants.<X>PrintStyle instead of its name
        lab += "/object"
    u = rng.random()
    if u < 0.15:
        case["md"] = rng.randint(1, 4)
        lab += "/max_depth"
    if rng.random() < 0.15:
        case["isroot"] = False                        # printed from an inner node of a larger tree
        lab += "/inner"
    case["subclass"] = rng.choice([False, False, True, "ve"])
    v = rng.random()
    if v < 0.22:
        if style[0] == "custom":
            br, fi = style[2], style[3]
        else:
            br, fi = STYLE_GLYPHS[style[1]]
        pl = [br.rstrip(" "), fi.rstrip(" ")]
        w = rng.random()
        if w < 0.15:
            pl = pl[:1]                               # incomplete list
        elif w < 0.25:
            pl = ["x", "yy"]                          # matches nothing
        elif w < 0.35:
            pl = [br, fi]                             # with the trailing blank
        if all(pl) and not any(ch in ".^$*+?{}[]\\|()" for q in pl for ch in q):
            case["plist"] = pl
            lab += "/prefix_list"
    return f"print/{shape}/{pool_name}/{lab}", case


def gen_print_binary(rng):
    """BinaryNode trees with empty slots: printed like the tree without the empty slots"""
    n = rng.randint(2, 9)
    kids = [[] for _ in range(n)]
    for i in range(1, n):
        cands = [q for q in range(i) if len(kids[q]) < 2]
        kids[rng.choice(cands[-3:])].append(i)
    names = _names(rng, kids, PR_POOLS[rng.choice(["distinct", "affix", "repeated"])])
    style = ["name", rng.choice([2, 3, 4, 5])]
    case = {"kind": "pr", "tree": _to_tree(kids, names, [dict() for _ in kids]), "style": style, "binary": True}
    if rng.random() < 0.2:
        case["md"] = rng.randint(1, 3)
    return "print/binary", case


NW_ALPHA = "ab(),:'[]=1 &"


def _mutate(rng, s, alpha):
    if not s:
        return rng.choice(alpha)
    ops = rng.randint(1, 2)
    for _ in range(ops):
        i = rng.randrange(len(s) + 1)
        u = rng.random()
        if u < 0.4 and s:
            j = min(i, len(s) - 1)
            s = s[:j] + s[j + 1:]
        elif u < 0.75:
            s = s[:i] + rng.choice(alpha) + s[i:]
        elif s:
            j = min(i, len(s) - 1)
            s = s[:j] + rng.choice(alpha) + s[j + 1:]
    return s


def _impl_free_newick(tj, rng):
    """a syntactically valid Newick text written by the generator itself (not by bigtree):
    unnamed nodes, quoted labels, lengths and attributes in the documented syntax"""
    name, attrs, kids = tj
    inner = ",".join(_impl_free_newick(k, rng) for k in kids)
    s = f"({inner})" if kids else ""
    u = rng.random()
    if u < 0.2:
        lab = ""
    elif u < 0.4:
        lab = "'" + name.replace("'", "") + "'"
    else:
        lab = name if not set(name) & set("()[]=':,") else "'" + name.replace("'", "") + "'"
    s += lab
    if rng.random() < 0.3:
        s += ":" + rng.choice(["1", "20", "007", "0", "3", "0.5", "2.0", "-3", "12.25", "1.", "1e3", "-0.0"])
    if rng.random() < 0.25:
        kv = ":".join(f"{k}={v}" for k, v in rng.sample([("k", "v"), ("b", "'x:y'"), ("'a b'", "1"), ("k", "w")], rng.randint(1, 2)))
        s += "[" + rng.choice(["&&NHX:", "&&NHX:", ""]) + kv + "]"
    return s


def gen_nwparse(rng):
    u = rng.random()
    la = rng.choice(["length", "length", "age"])
    pf = rng.choice(["&&NHX:", "&&NHX:", "&&NHX:", "", "&"])
    if u < 0.35:
        n = rng.randint(1, 12)
        s = "".join(rng.choice(NW_ALPHA) for _ in range(n))
        lab = "random"
    else:
        kids = _shape(rng, rng.choice(SHAPES), 7)
        names = _names(rng, kids, NW_POOLS[rng.choice(["distinct", "affix", "special"])])
        s = _impl_free_newick(_to_tree(kids, names, [dict() for _ in kids]), rng)
        lab = "wellformed"
        if u < 0.7:
            s = _mutate(rng, s, NW_ALPHA)
            lab = "mutated"
    return f"nwparse/{lab}", {"kind": "nwparse", "s": s, "la": la, "pf": pf, "subclass": rng.choice([False, False, True, "ve"])}


def _ref_lines(tj, stem, branch, final, pfx=""):
    out = []
    kids = tj[2]
    for i, k in enumerate(kids):
        last = i == len(kids) - 1
        out.append(pfx + (final if last else branch) + k[0])
        out.extend(_ref_lines(k, stem, branch, final, pfx + (" " * len(stem) if last else stem)))
    return out


ST_ALPHA = "ab │├─└\n"


def gen_stparse(rng):
    kids = _shape(rng, rng.choice(SHAPES), 8)
    names = _names(rng, kids, PR_POOLS[rng.choice(["distinct", "affix", "special"])])
    stem, branch, final = rng.choice([
        ("│   ", "├── ", "└── "),
        ("│ ", "├ ", "└ "),
        ("    ", "    ", "    "),
    ])
    if stem.strip() and rng.random() < 0.3:
        # a name that itself contains a prefix glyph: only the text after the LAST prefix is the name
        i = rng.randrange(1, len(names))
        names[i] = names[i] + " " + rng.choice([branch, final]) + "z" + str(i)
    tj = _to_tree(kids, names, [dict() for _ in kids])
    lines = [tj[0]] + _ref_lines(tj, stem, branch, final)
    u = rng.random()
    lab = "wellformed"
    if u < 0.25:
        pass
    elif u < 0.45 and len(lines) > 2:
        del lines[rng.randrange(1, len(lines))]          # depth jumps
        lab = "line-dropped"
    elif u < 0.6 and len(lines) > 2:
        i = rng.randrange(1, len(lines))
        lines[i] = lines[i][rng.choice([1, 2, len(stem)]):]    # shifted indentation
        lab = "shifted"
    elif u < 0.7 and len(lines) > 2:
        i = rng.randrange(1, len(lines))
        lines[i] = lines[rng.randrange(1, len(lines))]   # duplicated line (duplicate sibling?)
        lab = "line-copied"
    s = "\n".join(lines) + rng.choice(["\n", "", "\n\n"])
    if u >= 0.7:
        s = _mutate(rng, s, ST_ALPHA)
        lab = "mutated"
    case = {"kind": "stparse", "s": s, "subclass": rng.choice([False, False, True, "ve"])}
    if stem.strip() and rng.random() < 0.45:
        case["plist"] = rng.choice([[branch.rstrip(" "), final.rstrip(" ")], [branch, final], [final.rstrip(" ")],
                                    [final.rstrip(" "), branch.rstrip(" ")]])
        lab += "/prefix_list"
    return f"stparse/{lab}", case


def _t(name, *kids, **attrs):
    return [name, attrs, list(kids)]


def corpus(prop):
    dflt = {"inter": True, "len": "", "lsep": ":", "attrs": [], "prefix": "&&NHX:", "asep": ":"}
    deep = _t("r", _t("a", _t("b", _t("c", _t("d", _t("e", _t("f"), _t("g")), _t("h")), _t("i")), _t("j")), _t("k")), _t("l"))
    wide = _t("r", _t("a"), _t("b", _t("x"), _t("y"), _t("z"), _t("w")), _t("c"), _t("d:e"))
    quoted_last = _t("r", _t("a", _t("p"), _t("x:y")), _t("(b)", _t("q,")))
    out = [
        ("docstring", {"kind": "nw", "tree": _t("a", _t("b", _t("d"), _t("e")), _t("c")), "cfg": dflt, "isroot": True}),
        ("deep7", {"kind": "nw", "tree": deep, "cfg": dflt, "isroot": True}),
        ("fan4", {"kind": "nw", "tree": wide, "cfg": dflt, "isroot": True}),
        ("quoted-before-close", {"kind": "nw", "tree": quoted_last, "cfg": dflt, "isroot": True}),
        ("quote-in-name", {"kind": "nw", "tree": _t("r", _t("it's")), "cfg": dflt, "isroot": True}),
        ("docstring-len-attrs", {"kind": "nw", "tree": _t("a", _t("b", _t("d", age=40, species="human"), _t("e", age=35, species="human"), age=65, species="human"),
                                                          _t("c", age=60, species="human"), species="human"),
                                 "cfg": dict(dflt, len="age", attrs=["species"]), "isroot": True}),
        ("print-docstring", {"kind": "pr", "tree": _t("a", _t("b", _t("d"), _t("e", _t("g"), _t("h"))), _t("c", _t("f"))), "style": ["name", 2]}),
        ("print-deep7", {"kind": "pr", "tree": deep, "style": ["name", 2]}),
        ("print-fan4", {"kind": "pr", "tree": wide, "style": ["name", 5]}),
        ("print-ansi", {"kind": "pr", "tree": _t("a", _t("b"), _t("c")), "style": ["name", 0]}),
        ("nwparse-dup", {"kind": "nwparse", "s": "(a,a)b", "la": "length", "pf": "&&NHX:"}),
        ("nwparse-unnamed", {"kind": "nwparse", "s": "((),)", "la": "length", "pf": "&&NHX:"}),
        ("nwparse-assert", {"kind": "nwparse", "s": "a[,c=d]", "la": "length", "pf": "&&NHX:"}),
        ("nwparse-first", {"kind": "nwparse", "s": "a,b,", "la": "length", "pf": "&&NHX:"}),
        ("nwparse-reopen", {"kind": "nwparse", "s": "(a)(b)c", "la": "length", "pf": "&&NHX:"}),
        ("nwparse-below", {"kind": "nwparse", "s": "a)(", "la": "length", "pf": "&&NHX:"}),
        ("stparse-jump", {"kind": "stparse", "s": "a\n└── b\n            └── c\n└── d\n"}),
        ("nwparse-float-docstring", {"kind": "nwparse", "s": "(child1:0.5,child2:0.1)parent", "la": "length", "pf": "&&NHX:"}),
        ("newick-float-length", {"kind": "nw", "tree": _t("a", _t("b", _t("d", age=0.5), age=2.0), _t("c", age=12.25)),
                                 "cfg": dict(dflt, len="age"), "isroot": True, "defaults": True}),
        ("stparse-docstring-prefix", {"kind": "stparse", "plist": ["├──", "└──"],
                                      "s": "a\n├── b\n│   ├── d\n│   └── e\n│       ├── g\n│       └── h\n└── c\n    └── f"}),
        ("print-prefix-nonascii", {"kind": "pr", "tree": _t("r", _t("été", _t("x y")), _t("b")), "style": ["name", 2],
                                   "plist": ["├──", "└──"]}),
        ("print-annotation-like-names", {"kind": "pr", "style": ["name", 2],
                                         "tree": _t("argv[1]", _t("docs [draft]", _t("x[0]"), _t("x[1]"), _t("a [age=90]", _t("b [x=1, y=2]"))),
                                                    _t("1e-05"), _t("1.5"), _t("1"))}),
        ("newick-annotation-like-names", {"kind": "nw", "cfg": dflt, "isroot": True, "defaults": True,
                                          "tree": _t("argv[1]", _t("docs [draft]", _t("x[0]"), _t("x[1]"), _t("a [k=v]", _t("b[&&NHX:k=v]"))),
                                                     _t("1e-05"), _t("c:1[x]"), _t("( a , b )"))}),
        ("newick-float-forms", {"kind": "nw", "cfg": dict(dflt, len="L"), "isroot": True, "defaults": True, "subclass": "ve",
                                "tree": _t("r", _t("a", _t("c", L=-2.5e-07), L=1e-05), _t("b", L=1e+16), _t("d", L=0.0001), _t("e", L=7))}),
        # the two _refuted examples of Props/C06_text.v, replayed on /repo (outside the alphabet: model compared)
        ("newick-negative-int-length", {"kind": "nw", "cfg": dict(dflt, len="L"), "isroot": True,
                                        "tree": _t("r", _t("b", L=-5))}),
        ("newick-zero-length", {"kind": "nw", "cfg": dict(dflt, len="L"), "isroot": True,
                                "tree": _t("r", _t("b", L=0))}),
        ("newick-float-every-form", {"kind": "nw", "cfg": dict(dflt, len="L"), "isroot": True,
                                     "tree": _t("r", _t("a", _t("c", L=-2.5e-07), L=1e-05), _t("b", L=1e+16), _t("d", L=0.0001),
                                                _t("e", L=7), _t("f", L=2.0), _t("g", L=-3e+20), _t("h", L=1234567.5))}),
        ("print-inner-maxdepth", {"kind": "pr", "tree": deep, "style": ["object", 4], "md": 3, "isroot": False, "subclass": True}),
    ]
    return out


def generate(prop, rng, tier):
    scale = {"quick": 1, "thorough": 12, "search": 3}[tier]
    plan = [(gen_newick, 760), (gen_print, 500), (gen_print_binary, 40), (gen_nwparse, 190), (gen_stparse, 150)]
    for fn, count in plan:
        for _ in range(count * scale):
            yield fn(rng)
    if tier == "thorough":
        # small-scope exhaustive: every ordered tree shape with <= 6 nodes, plain names, both formats
        dflt = {"inter": True, "len": "", "lsep": ":", "attrs": [], "prefix": "&&NHX:", "asep": ":"}
        for tj in _all_trees(6):
            yield "newick/exhaustive", {"kind": "nw", "tree": tj, "cfg": dflt, "isroot": True}
            yield "print/exhaustive", {"kind": "pr", "tree": tj, "style": ["name", 2]}


def _all_forests(n, memo={}):
    """all ordered forests with n nodes, as nested shape lists"""
    if n == 0:
        return [[]]
    if n in memo:
        return memo[n]
    out = []
    for k in range(1, n + 1):            # size of the first tree
        for first_kids in _all_forests(k - 1):
            for rest in _all_forests(n - k):
                out.append([first_kids] + rest)
    memo[n] = out
    return out


def _all_trees(nmax):
    for n in range(1, nmax + 1):
        for kids in _all_forests(n - 1):
            counter = [0]

            def lab(ks):
                i = counter[0]
                counter[0] += 1
                return ["abcdefgh"[i % 8] + ("" if i < 8 else str(i)), {}, [lab(k) for k in ks]]
            yield lab(kids)


# ---------------------------------------------------------------------------------------------
# evidence, shrinking


def _tsize(tj):
    return 1 + sum(_tsize(k) for k in tj[2])


def size(case):
    if "tree" in case:
        return 10 * _tsize(case["tree"]) + len(str(case["tree"]))
    return len(case["s"])


def _tree_shrinks(tj):
    name, attrs, kids = tj
    for i, k in enumerate(kids):
        yield [name, attrs, kids[:i] + kids[i + 1:]]                 # drop a subtree
        if not _clash(kids, i, k[2]):
            yield [name, attrs, kids[:i] + k[2] + kids[i + 1:]]      # splice the grandchildren in
        for k2 in _tree_shrinks(k):
            yield [name, attrs, kids[:i] + [k2] + kids[i + 1:]]
    if attrs:
        yield [name, {}, kids]
    if len(name) > 1:
        yield [name[:1], attrs, kids]
        yield [name[-1:], attrs, kids]


def _clash(kids, i, new):
    names = [k[0] for j, k in enumerate(kids) if j != i] + [k[0] for k in new]
    return len(set(names)) != len(names)


def _sib_ok(tj):
    names = [k[0] for k in tj[2]]
    return len(set(names)) == len(names) and all(n for n in names) and all(_sib_ok(k) for k in tj[2])


def shrink_candidates(prop, case):
    if "tree" in case:
        for k in case["tree"][2]:
            c = dict(case)
            c["tree"] = k
            yield c
        for t2 in _tree_shrinks(case["tree"]):
            if t2[0] and _sib_ok(t2):
                c = dict(case)
                c["tree"] = t2
                yield c
    else:
        s = case["s"]
        for i in range(len(s)):
            c = dict(case)
            c["s"] = s[:i] + s[i + 1:]
            if c["s"]:
                yield c


def nontrivial(prop, case, obs):
    if "tree" in case:
        return _tsize(case["tree"]) >= 3 and obs.get("back") is not None
    return len(case["s"]) >= 3


def sample(prop, case, obs):
    return {"case": case, "exported": obs.get("out"), "rebuilt_preorder": obs.get("back")}


def rule(prop):
    return ("textual exports: random trees (2-11 nodes; shapes wide/deep/mixed/path/star/comb; name pools distinct/"
            "repeated/affix/special incl. all Newick specials, blanks-only, digits-only, nodeN, double quote, non-ASCII; "
            "a small stream outside the documented alphabets) x Newick option strata (plain / no intermediate names / "
            "int and float lengths / attributes / both / non-default separators and prefixes / arguments left to their "
            "enum-valued defaults / exported from a non-root node / node_type = user subclass) and x print strata "
            "(6 built-in styles by name and as style objects, custom styles, max_depth, printed from an inner node, "
            "BinaryNode trees with empty slots, str_to_tree with and without tree_prefix_list); every exporter is called "
            "twice and must return the same text and leave the tree untouched; the implementation's own text is "
            "re-imported by the implementation (rebuilt root must be a root, all nodes of the requested node_type); "
            "plus parser-only streams (generator-written incl. unnamed nodes / quoted labels / float lengths, mutated "
            "and random texts). Model and implementation are compared on EVERY case, also outside the alphabets "
            "(F_SKIP there only means the round-trip predicates are not claimed); only float()/repr forms with "
            "exponents and regex-metacharacter prefix lists are not compared. non-trivial = tree with >= 3 nodes "
            "whose export was re-imported without exception (parser-only: text of >= 3 characters); distinct by "
            "canonical JSON hash")


def explain(prop, case, obs, flags):
    from ._base import explain as base
    return base(prop, case, obs, flags)


def static_tie(prop, repo):
    """C06: the Newick control characters of the Coq model are re-derived from the current source and compared by coqc."""
    if prop != "C06":
        return None
    import os
    from .. import gen_newick
    verif = os.path.dirname(os.path.dirname(os.path.dirname(os.path.abspath(__file__))))
    devs = gen_newick.run(repo, verif)
    return {"deviations": devs,
            "what": ("the eight control characters of the Newick reader and writer (class NewickCharacter of "
                     "bigtree/utils/constants.py: member names, values, declaration order = order of values()) are "
                     "regenerated from the source under check; a generated Coq file checks by computation that the "
                     "model's writer escape set equals values() and that the model's writer and parser give every "
                     "generated character the role its name says; a deviation means the Newick theorems are no "
                     "longer about this source's format"),
            "theorems": ["C06_newick_roundtrip", "C06_newick_nodes_once", "C06_newick_roundtrip_float"],
            "obligations_checked": "see harness/gen_newick.py emit()"}


def trusted_base(prop):
    return COMMON_TB + [
        "str_to_tree is modelled only for tree_prefix_list=[] (the branch using re.split is not modelled)",
        "print()/io.StringIO, str.encode('ascii','ignore'), str.lstrip/index/find/startswith are modelled, not verified",
        "harness/gen_newick.py: ast-based translator of class NewickCharacter (bigtree/utils/constants.py) into "
        "GenNewick.v, checked against the model's writer and parser by coqc",
    ]


def partial_clauses(prop):
    return [
        "Newick: non-default length_sep / attr_sep are outside the round-trip claim (newick_to_tree only knows ':'); "
        "with neither length nor attributes requested any separator is covered (C06_newick_roundtrip_anysep)",
        "float lengths: C06_newick_roundtrip_float proves the round trip for every length that is a canonical literal "
        "(lit_okb: str(v) is a plain token and int()/float() of it is v again) -- positive ints and floats of either sign "
        "in positional and exponent repr with <= 15 significant digits and |exponent| <= 290; the export clause "
        "(C06_newick_nodes_once, reference grammar) stays integer-only; the writer model follows repr's rule "
        "(-4 <= decimal exponent < 16 positional); inf / nan are not compared",
        "str_to_tree with tree_prefix_list: modelled and compared for literal prefixes (no regex metacharacter); no "
        "theorem; regex prefixes and names with non-ASCII whitespace are not compared",
        "name classes kept OUT of the round-trip claim because the unchanged tree itself does not round-trip them "
        "(still compared with the model): Newick names / keys / values containing the quote character ' (rewritten to a "
        "double quote: Node(\"it's\") -> it\"s), nodeN names with intermediate_node_name=False (a(k(a),node0) -> TreeError), "
        "falsy attribute values (0, '', False are not exported; length 0 raises), non-string attribute values (come back as "
        "str), negative integer lengths (-5 comes back as -5.0); print_tree/str_to_tree without tree_prefix_list: ansi / ascii "
        "styles (Invalid prefix), non-root names with a leading blank (' lead' -> ValueError or shifted level), names with "
        "non-ASCII characters incl. names equal to style glyphs (characters dropped / ValueError), names containing a newline. "
        "INSIDE the claim and generated: names containing or ending with bracket groups (argv[1], docs [draft], x[0]/x[1] as "
        "siblings, a [age=90]), parentheses, commas, colons, semicolons, '=', internal and trailing blanks, blank-only names, "
        "numeric-looking names (1, 1.5, 1e-05, 1e+16, -2, 007), ASCII strings that look like ansi prefixes (|--, `-- a), and "
        "float lengths in every repr form (positional, exponent with and without a dot, negative)",
        "user subclasses: value-equality subclasses (__eq__/__hash__ by name) are used as input class and as node_type; "
        "subclasses whose instances can be falsy (__len__ = number of children) are kept out: on the unchanged tree "
        "tree_to_newick returns '' for such leaves ((()b,(,)c)a for a(b(a),c(b,a))), print_tree omits them and both parsers "
        "lose nodes (`if not tree` / `if tree and` / `if not _new_node`)",
        "accepted blind spots of this engine: print_tree's attribute options (attr_list, all_attrs, attr_omit_null, "
        "attr_bracket) and node_name_or_path are left to the render engine (C18) and to C14; tree_to_newick on "
        "BinaryNode trees with empty slots (writes empty labels, no round trip claimed) and on non-str names / "
        "non-list attr_list iterables is not exercised; exception classes are compared only as accepted/rejected; "
        "node sep and private fields of rebuilt nodes are not observed",
    ]


def assumptions(prop):
    return ["Newick round trip is claimed only for names, keys and values without the quote character ' "
            "(the exporter rewrites it to a double quote), non-empty string attribute values, positive integer lengths "
            "and the default ':' separators",
            "print_tree/str_to_tree round trip is claimed only for styles made of non-ASCII characters and blanks "
            "(const, const_bold, rounded, double and such custom styles) and non-empty printable-ASCII names "
            "without a leading blank"]
