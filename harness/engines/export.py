"""Engine `export` (C06, tabular half): tree_to_dict / tree_to_nested_dict / tree_to_dataframe /
tree_to_polars of bigtree/tree/export.py and the round trips through dict_to_tree /
nested_dict_to_tree / dataframe_to_tree / polars_to_tree of bigtree/tree/construct.py.

case = {"tree": [name, [[key, value], ...], [child, ...]],   # a Node tree, attributes sorted by key
        "sep": str, "pos": [child index, ...],               # start node = node at that position
        "opts": {"name_key", "parent_key", "path_col": str, "attr_dict": [[attr, out_key], ...],
                 "all_attrs": bool, "max_depth": int, "skip_depth": int, "leaf_only": bool},
        "child_key": str, "dup": bool (duplicate_name_allowed of the path constructors in the round trips),
        "cls": "Node" | "BinaryNode" (<= 2 children; a single child sits right when "right_only"), "stratum": str}
obs  = {"seps": [root.sep of the four rebuilt trees | None],
        "dict": [[path, items]] | None, "nested": [[depth, items]] | None, "df": [items] | None,
        "pl": [items] | None, "rt_dict" / "rt_nested" / "rt_df" / "rt_pl": [[depth, name, items]] | None}
   items = [[key, value], ...] sorted by key; value = ["N"] | ["I", int] | ["S", str] | ["B", bool];
   None = the call raised.
"""
import math

from ..core import cbool, clist, cpair, cstr
from ._base import *  # noqa
from ._base import COMMON_TB

SERVES = ["C06"]
COQ_TARGETS = ["theories/Corr/ExportCorr.vo"]
CASES_PER_FILE = 120


def coq_header(prop):
    return "From BT Require Import Base.Prelude Base.Str Base.Rose Algo.Export Spec.PC06 Corr.ExportCorr."


def coq_case_type(prop):
    return "xcase"


def coq_check(prop):
    return "check_C06"


# ---------------------------------------------------------------------------------------------
# JSON tree helpers


def t_nodes(t, depth=1, pos=()):
    """pre-order list of (depth, position, subtree)"""
    out = [(depth, pos, t)]
    for i, k in enumerate(t[2]):
        out.extend(t_nodes(k, depth + 1, pos + (i,)))
    return out


def t_size(t):
    return 1 + sum(t_size(k) for k in t[2])


def t_height(t):
    return 1 + max([t_height(k) for k in t[2]], default=0)


# ---------------------------------------------------------------------------------------------
# implementation side


class ObsError(Exception):
    """the implementation returned something outside the observation format"""


CONTAINER_MARK = "\ue000"     # a container value travels through the model as an opaque string


def enc_value(v):
    """injective text for a (possibly nested) Python value: type tags keep list / tuple / set / dict and
    int / bool / float / str apart"""
    if v is None:
        return "N"
    if isinstance(v, bool):
        return "bT" if v else "bF"
    if isinstance(v, int):
        return "i%d" % v
    if isinstance(v, float):
        return "f%r" % v
    if isinstance(v, str):
        return "s%r" % v
    if isinstance(v, list):
        return "[" + ",".join(enc_value(x) for x in v) + "]"
    if isinstance(v, tuple):
        return "(" + ",".join(enc_value(x) for x in v) + ")"
    if isinstance(v, (set, frozenset)):
        return "<" + ",".join(sorted(enc_value(x) for x in v)) + ">"
    if isinstance(v, dict):
        return "{" + ",".join(sorted(enc_value(k) + ":" + enc_value(x) for k, x in v.items())) + "}"
    raise ObsError("value outside the observed alphabet: %r" % (v,))


def py_value(v):
    """attribute value of a case: JSON scalar, or {"py": "<expression>"} for containers"""
    if isinstance(v, dict) and set(v) == {"py"}:
        return eval(v["py"], {"__builtins__": {"set": set}})
    return v


def _cv(v, strict=True):
    """canonical attribute / cell value.  strict: an integral float stays a float (tag F) -- only the
    pandas observations fold NaN into null and integral floats into ints (a float64 column is what
    pandas makes of an int column with missing cells)."""
    if v is None:
        return ["N"]
    if hasattr(v, "item") and not isinstance(v, (str, bytes)) and not isinstance(v, (list, tuple, dict, set)):
        v = v.item()                                              # numpy scalar
    if isinstance(v, bool):
        return ["B", v]
    if isinstance(v, int):
        return ["I", v]
    if isinstance(v, float):
        if not strict:
            if math.isnan(v):
                return ["N"]
            if v == int(v):
                return ["I", int(v)]
        return ["F", repr(v)]
    if isinstance(v, str):
        return ["S", v]
    if isinstance(v, (list, tuple, dict, set, frozenset)):
        return ["S", CONTAINER_MARK + enc_value(v)]
    raise ObsError("value outside the observed alphabet: %r" % (v,))


def _items(d, strict=True):
    for k in d:
        if not isinstance(k, str):
            raise ObsError("non-str key %r" % (k,))
    return [[k, _cv(d[k], strict)] for k in sorted(d)]


def bin_val(name):
    """BinaryNode.__init__: self.val = int(name) if possible else str(name)"""
    try:
        return int(name)
    except ValueError:
        return str(name)


def model_tree(case):
    """the tree as the model sees it: a BinaryNode carries the public attribute `val`"""
    if case.get("cls", "Node") != "BinaryNode":
        return case["tree"]

    def go(t):
        return [t[0], sorted(t[1] + [["val", bin_val(t[0])]], key=lambda kv: kv[0]), [go(k) for k in t[2]]]
    return go(case["tree"])


_VNODE = []


def vnode_class():
    """a user subclass with VALUE semantics: nodes of the same name compare (and hash) equal, so distinct
    nodes of one tree can be `==`; the library has to work on identity"""
    if not _VNODE:
        from bigtree.node.node import Node

        class VNode(Node):
            def __eq__(self, other):
                return isinstance(other, Node) and other.node_name == self.node_name

            def __hash__(self):
                return hash(self.node_name)
        _VNODE.append(VNode)
    return _VNODE[0]


def _build(case):
    sep = case["sep"]
    if case.get("cls", "Node") == "BinaryNode":
        from bigtree.node.binarynode import BinaryNode
        right_only = case.get("right_only", False)

        def gob(t):
            n = BinaryNode(t[0], **{k: py_value(v) for k, v in t[1]})
            kids = [gob(k) for k in t[2]]
            if len(kids) == 2:
                n.left, n.right = kids
            elif len(kids) == 1:
                if right_only:
                    n.right = kids[0]
                else:
                    n.left = kids[0]
            elif kids:
                raise ObsError("BinaryNode case with more than two children")
            return n
        root = gob(case["tree"])
        root.sep = sep
        return root
    Node = vnode_class() if case.get("cls") == "VNode" else __import__("bigtree.node.node", fromlist=["Node"]).Node

    def go(t, parent):
        kw = {k: py_value(v) for k, v in t[1]}
        n = Node(t[0], sep=sep, **kw) if parent is None else Node(t[0], parent=parent, **kw)
        for k in t[2]:
            go(k, n)
        return n
    return go(case["tree"], None)


_INTERNAL = ("_BaseNode__", "_Node__", "_BinaryNode__")


def _flat_tree(n, depth=0, strict=True):
    from bigtree.node.node import Node
    if not isinstance(n, Node):
        raise ObsError("constructor did not return a Node")
    at = {k: v for k, v in n.__dict__.items()
          if k not in ("name", "_sep") and not k.startswith(_INTERNAL)}
    out = [[depth, n.node_name, _items(at, strict)]]
    for c in n.children:
        if c is not None:
            out.extend(_flat_tree(c, depth + 1, strict))
    return out


def _flat_nested(d, ck, depth=0):
    if not isinstance(d, dict):
        raise ObsError("nested export is not a dict")
    out = [[depth, _items({k: v for k, v in d.items() if k != ck})]]
    kids = d.get(ck, [])
    if not isinstance(kids, list):
        raise ObsError("child list is not a list")
    for c in kids:
        out.extend(_flat_nested(c, ck, depth + 1))
    return out


def _rows_pd(df):
    if not len(df.columns):
        return []
    return [_items(r, strict=False) for r in df.to_dict(orient="records")]


def _rows_pl(df):
    if not len(df.columns):
        return []
    return [_items(r) for r in df.to_dicts()]


def _guard(f):
    try:
        return f()
    except ObsError:
        raise
    except Exception:
        return None


def nested_key(case):
    return case["opts"]["name_key"] or "name"


def run_impl(prop, case):
    from bigtree.tree import construct, export

    sep = case["sep"]
    o = case["opts"]
    ck = case["child_key"]
    dup = case.get("dup", True)
    nk = nested_key(case)

    # ONE tree object for everything: every exporter runs on it (three of them twice), then the four
    # round trips; at the end the tree must still be what it was
    root = _build(case)
    before = _flat_tree(root)
    start = root
    for i in case["pos"]:
        start = [c for c in start.children if c is not None][i]

    common = dict(attr_dict={k: v for k, v in o["attr_dict"]}, all_attrs=o["all_attrs"], max_depth=o["max_depth"])
    gates = dict(skip_depth=o["skip_depth"], leaf_only=o["leaf_only"])
    obs = {}

    def ex_dict():
        d = export.tree_to_dict(start, name_key=o["name_key"], parent_key=o["parent_key"], **common, **gates)
        if not isinstance(d, dict):
            raise ObsError("export is not a dict")
        return [[p, _items(r)] for p, r in d.items()]

    def ex_nested():
        d = export.tree_to_nested_dict(start, name_key=o["name_key"], child_key=ck, **common)
        return _flat_nested(d, ck)

    def ex_df():
        return _rows_pd(export.tree_to_dataframe(start, path_col=o["path_col"], name_col=o["name_key"],
                                                 parent_col=o["parent_key"], **common, **gates))

    def ex_pl():
        return _rows_pl(export.tree_to_polars(start, path_col=o["path_col"], name_col=o["name_key"],
                                              parent_col=o["parent_key"], **common, **gates))

    seps = {}

    def rebuilt(key, t, strict=True):
        seps[key] = t.sep
        return _flat_tree(t, strict=strict)

    VNode = vnode_class()
    # the path round trips can be compared with a re-export only where path strings are unambiguous
    free = all(ch not in n[0] for _, _, n in t_nodes(case["tree"]) for ch in sep)

    def drop_nulls(rows):
        return [[kv for kv in r if kv[1] != ["N"]] for r in rows]

    def roundtrip(key, exp, snap, imp, strict, reexport_ok, norm=lambda x: x):
        """export -> import, with the caller's export object checked untouched, imported a second time
        (other node_type) and the imported tree exported again"""
        d = exp(root)
        before_d = snap(d)
        t1 = imp(d, {})
        if snap(d) != before_d:
            raise ObsError(key + ": the constructor modified the export object it was given")
        t2 = imp(d, {"node_type": VNode})
        if snap(d) != before_d:
            raise ObsError(key + ": the constructor modified the export object it was given (second import)")
        f1 = rebuilt(key, t1, strict)
        if type(t2) is not VNode or _flat_tree(t2, strict=strict) != f1:
            raise ObsError(key + ": importing the same object a second time (node_type=subclass) gives another tree")
        if reexport_ok and norm(snap(exp(t1))) != norm(before_d):
            raise ObsError(key + ": exporting the imported tree does not reproduce the export")
        return f1

    def rt_dict():
        return roundtrip("rt_dict", lambda t: export.tree_to_dict(t, all_attrs=True),
                         lambda d: [[p_, _items(r)] for p_, r in d.items()],
                         lambda d, kw: construct.dict_to_tree(d, sep=sep, duplicate_name_allowed=dup, **kw),
                         True, free)

    def rt_nested():
        return roundtrip("rt_nested", lambda t: export.tree_to_nested_dict(t, name_key=nk, child_key=ck, all_attrs=True),
                         enc_value,
                         lambda d, kw: construct.nested_dict_to_tree(d, name_key=nk, child_key=ck, **kw),
                         True, True)

    def rt_df():
        return roundtrip("rt_df", lambda t: export.tree_to_dataframe(t, all_attrs=True),
                         lambda d: [list(d.columns), list(d.index), _rows_pd(d)],
                         lambda d, kw: construct.dataframe_to_tree(d, sep=sep, duplicate_name_allowed=dup, **kw),
                         False, free, norm=lambda x: drop_nulls(x[2]))

    def rt_pl():
        return roundtrip("rt_pl", lambda t: export.tree_to_polars(t, all_attrs=True),
                         lambda d: [list(d.columns), _rows_pl(d)],
                         lambda d, kw: construct.polars_to_tree(d, sep=sep, duplicate_name_allowed=dup, **kw),
                         True, free, norm=lambda x: drop_nulls(x[1]))

    no_polars = any(k in POLARS_UNFIT for _, _, n in t_nodes(case["tree"]) for k, _ in n[1])
    for key, f in (("dict", ex_dict), ("nested", ex_nested), ("df", ex_df), ("pl", ex_pl)):
        obs[key] = obs["df"] if (key == "pl" and no_polars) else _guard(f)
    for key, f in (("df", ex_df), ("nested", ex_nested), ("dict", ex_dict)):
        if _guard(f) != obs[key]:
            raise ObsError("exporting the same tree a second time gives a different " + key + " export")
    for key, f in (("rt_dict", rt_dict), ("rt_nested", rt_nested), ("rt_df", rt_df), ("rt_pl", rt_pl)):
        if key == "rt_pl" and no_polars:
            obs[key] = obs["rt_df"]
            seps["rt_pl"] = seps.get("rt_df")
        else:
            obs[key] = _guard(f)
    obs["seps"] = [seps.get(k) if obs[k] is not None else None for k in ("rt_dict", "rt_nested", "rt_df", "rt_pl")]
    for s_ in obs["seps"]:
        if s_ is not None and not isinstance(s_, str):
            raise ObsError("separator of a rebuilt tree is not a str")
    if _flat_tree(root) != before:
        raise ObsError("the exported tree was modified by the exporters / constructors")
    return obs


# ---------------------------------------------------------------------------------------------
# Coq literals


def cval(v):
    k = v[0]
    if k == "N":
        return "VNone"
    if k == "I":
        return f"VInt ({int(v[1])})"
    if k == "B":
        return "VBool " + cbool(v[1])
    if k == "S":
        return "VStr " + cstr(v[1])
    if k == "F":
        f = float(v[1])
        if f != f or f in (float("inf"), float("-inf")):
            return "VFloat 0 0"
        num, den = f.as_integer_ratio()
        return f"VFloat ({num}) ({den})"
    raise ValueError(v)


def crec(items):
    return clist(cpair(cstr(k), cval(v)) for k, v in items)


def ctree(t):
    attrs = clist(cpair(cstr(k), cval(_cv(py_value(v)))) for k, v in t[1])
    return f"T None {cstr(t[0])} {attrs} {clist(ctree(k) for k in t[2])}"


def copts(o):
    ad = clist(cpair(cstr(k), cstr(v)) for k, v in o["attr_dict"])
    return (f"Opts {cstr(o['name_key'])} {cstr(o['parent_key'])} {cstr(o['path_col'])} {ad} "
            f"{cbool(o['all_attrs'])} {int(o['max_depth'])} {int(o['skip_depth'])} {cbool(o['leaf_only'])}")


def _copt(x, f):
    return "None" if x is None else f"(Some {f(x)})"


def _flat(l):
    return clist(f"({int(d)}, ({cstr(n)}, {crec(a)}))" for d, n, a in l)


def _again(prev, x, f):
    return "Same" if x == prev else f"(Other {_copt(x, f)})"


def emit(prop, case, obs):
    f_dict = lambda d: clist(cpair(cstr(p), crec(r)) for p, r in d)
    f_nested = lambda l: clist(f"({int(d)}, {crec(r)})" for d, r in l)
    f_rows = lambda l: clist(crec(r) for r in l)
    parts = [
        "(" + ctree(model_tree(case)) + ")", cstr(case["sep"]), clist(str(int(i)) for i in case["pos"]),
        "(" + copts(case["opts"]) + ")",
        _copt(obs["dict"], f_dict), _copt(obs["nested"], f_nested), _copt(obs["df"], f_rows),
        _again(obs["df"], obs["pl"], f_rows),
        _copt(obs["rt_dict"], _flat),
        _again(obs["rt_dict"], obs["rt_nested"], _flat),
        _again(obs["rt_dict"], obs["rt_df"], _flat),
        _again(obs["rt_df"], obs["rt_pl"], _flat),
        cstr(nested_key(case)), cbool(case.get("dup", True)),
        clist(_copt(x, cstr) for x in obs["seps"]),
    ]
    return "XC " + " ".join(parts)


# ---------------------------------------------------------------------------------------------
# generation

NAME_POOLS = {
    "distinct": ["a", "b", "c", "d", "e", "f", "g", "h", "i", "j", "k", "l", "m"],
    "repeated": ["a", "b", "c"],
    "affix": ["a", "xa", "ab", "b", "bc", "abc", "c", "xab"],
    "special": ["a.b", "(", "+", "a b", "a'", "0", "a1", "10", "-", "b|c", "x/y", "é", "a-", " b", "c ", "\\d"],
}
SEPS = ["/", "\\", "-", ".", "|"]
MULTI_SEPS = ["->", "::", "=>", "//", "-|-"]

# attribute key -> generator of values of ONE type (polars needs homogeneous columns)
ATTR_TYPES = {
    "age": lambda r: r.choice([0, 1, 7, 35, 90, -3]),
    "w": lambda r: r.choice(["x", "", "a b", "1", "né"]),
    "k": lambda r: r.random() < 0.5,
    "_h": lambda r: r.choice([1, 2]),
    "Z9": lambda r: r.choice(["p", "q"]),
    "b": lambda r: r.choice([5, 6]),
    # non-integral floats (an integral float is indistinguishable from an int once pandas has seen it)
    "fl": lambda r: r.choice([0.5, -1.25, 2.75]),
    # containers, incl. empty ones; one kind per key
    "ls": lambda r: {"py": r.choice(["[1, 2]", "[]", "[7]"])},
    "dc": lambda r: {"py": r.choice(["{'k': 1}", "{'k': 5}"])},
    "ed": lambda r: {"py": "{}"},
    "st": lambda r: {"py": r.choice(["{3}", "{4}", "set()"])},
    "tp": lambda r: {"py": r.choice(["(1, 'x')", "()", "(2,)"])},
    "nx": lambda r: {"py": r.choice(["[1, [2, 'x'], {'k': [0]}]", "[[], {}]", "{'a': [1, (2, 3)], 'b': {'c': None}}"])},
}
# attribute NAMES that are affixes / superstrings of built-in names and of the option values
ATTR_TYPES.update({
    "name_en": lambda r: r.choice(["x", "y z"]),
    "names": lambda r: r.choice([1, 2]),
    "nam": lambda r: r.random() < 0.5,
    "xname": lambda r: r.choice(["u", "v"]),
    "paths": lambda r: r.choice([3, 4]),
    "pathx": lambda r: r.choice(["/a", "b/"]),
    "parent_id": lambda r: r.choice([7, 8]),
    "childrens": lambda r: r.choice(["c"]),
    "sepx": lambda r: r.choice(["/", "|"]),
    "depthx": lambda r: r.choice([1, 9]),
    "n": lambda r: r.choice([11, 12]),
    "p": lambda r: r.choice(["q"]),
    "x": lambda r: r.choice([0.5, 1.5]),
    "y": lambda r: r.choice([1, 2]),
    "shift": lambda r: r.choice([0.25]),
    "kid": lambda r: r.choice(["k"]),
})
# polars cannot hold these kinds in one column (tuples of mixed types, ragged nesting): the two polars
# entry points are not called for a tree carrying them
POLARS_UNFIT = ("tp", "nx")
OUT_KEYS = ["A", "b c", "x1", "age", "w", "Q"]


def gen_shape(rng, kind, nmax):
    """tree skeleton as nested lists of children"""
    n = rng.randint(2, nmax)
    if kind == "path":
        t = []
        for _ in range(min(n, 8) - 1):
            t = [t]
        return t
    if kind == "star":
        return [[] for _ in range(min(n - 1, 6))]
    nodes = [[]]
    depth = {id(nodes[0]): 1}
    for _ in range(n - 1):
        if kind == "wide":
            cands = [x for x in nodes if len(x) < 6 and depth[id(x)] <= 2]
        elif kind == "deep":
            cands = [x for x in nodes if len(x) < 2 and depth[id(x)] <= 7]
            # prefer the deepest nodes
            cands.sort(key=lambda x: -depth[id(x)])
            cands = cands[:2]
        else:
            cands = [x for x in nodes if len(x) < 4 and depth[id(x)] <= 7]
        if not cands:
            break
        p = rng.choice(cands)
        c = []
        p.append(c)
        depth[id(c)] = depth[id(p)] + 1
        nodes.append(c)
    return nodes[0]


def decorate(rng, shape, pool, attr_keys, none_rate, unique=False):
    names = list(pool)
    fresh = list(pool)
    rng.shuffle(fresh)

    def go(sh, name):
        if unique:      # globally distinct names (what duplicate_name_allowed=False accepts)
            attrs = []
            for k in attr_keys:
                if rng.random() < 0.6:
                    attrs.append([k, None if rng.random() < none_rate else ATTR_TYPES[k](rng)])
            attrs.sort(key=lambda kv: kv[0])
            kids = []
            for c in sh:
                if not fresh:
                    break
                kids.append(go(c, fresh.pop()))
            return [name, attrs, kids]
        attrs = []
        for k in attr_keys:
            if rng.random() < 0.6:
                attrs.append([k, None if rng.random() < none_rate else ATTR_TYPES[k](rng)])
        attrs.sort(key=lambda kv: kv[0])
        ks = rng.sample(names, min(len(sh), len(names)))
        return [name, attrs, [go(c, nm) for c, nm in zip(sh, ks)]]

    return go(shape, fresh.pop() if unique else rng.choice(names))


def gen_opts(rng, attr_keys, height):
    all_attrs = rng.random() < 0.35
    ad = []
    if rng.random() < 0.75:
        src = attr_keys + ["zz"] + (["name"] if rng.random() < 0.15 else [])
        ks = rng.sample(src, min(len(src), rng.randint(1, 3)))
        outs = rng.sample(OUT_KEYS, len(ks))
        ad = [[k, v] for k, v in zip(ks, outs)]
    # an option value equal to an attribute NAME of the tree would collide inside the record: affixes only
    name_key = rng.choice([k for k in ["name", "name", "n", ""] if k not in attr_keys])
    parent_key = rng.choice([k for k in ["", "parent", "p", "p"] if k not in attr_keys])
    path_col = rng.choice(["path", "path", "P", ""])
    if ad and rng.random() < 0.04:            # output key collides with the name key
        ad[-1][1] = name_key or "n"
    hi = max(height + 1, 2)
    return {
        "name_key": name_key, "parent_key": parent_key, "path_col": path_col, "attr_dict": ad,
        "all_attrs": all_attrs,
        "max_depth": 0 if rng.random() < 0.45 else rng.randint(1, hi),
        "skip_depth": 0 if rng.random() < 0.45 else rng.randint(1, hi),
        "leaf_only": rng.random() < 0.35,
    }


def gen_case(rng, shape_kind=None, pool_name=None, nmax=11):
    shape_kind = shape_kind or rng.choice(["wide", "deep", "deep", "mixed", "mixed", "path", "star"])
    pool_name = pool_name or rng.choice(["distinct", "repeated", "affix", "special"])
    multi = rng.random() < 0.3            # separator of more than one character
    if multi and pool_name == "special":  # letter pools: no character of any separator in a name (the guard)
        pool_name = rng.choice(["distinct", "repeated", "affix"])
    binary = rng.random() < 0.12          # BinaryNode: at most two children, empty slots (None) on one side
    if binary and pool_name == "special":  # numeric names would make `val` an int at some nodes only
        pool_name = "affix"
    pool = NAME_POOLS[pool_name]
    shape = gen_shape(rng, shape_kind, nmax)
    # sibling names are distinct: never more children than names in the pool
    width = min(len(pool), 2) if binary else len(pool)
    def clip(sh):
        del sh[width:]
        for c in sh:
            clip(c)
    clip(shape)
    attr_keys = rng.sample(list(ATTR_TYPES), rng.randint(0, 3))
    dup = rng.random() < 0.6
    unique = (not dup) and rng.random() < 0.7 and len(pool) >= 8
    tree = decorate(rng, shape, pool, attr_keys, rng.choice([0.0, 0.0, 0.2, 0.5]), unique=unique)
    nodes = t_nodes(tree)
    pos = [] if rng.random() < 0.4 else list(rng.choice(nodes)[1])
    sep = rng.choice(MULTI_SEPS) if multi else rng.choice(SEPS)
    k3 = multi and rng.random() < 0.2
    if k3:
        # K3 territory: no name CONTAINS the separator, but one name ends (the root may also start) with one
        # of its characters.  The stripped name is the node's old name, which no sibling carries.
        _, _, node = rng.choice(nodes)
        ch = rng.choice(sorted(set(sep)))
        node[0] = ch + node[0] if (node is tree and rng.random() < 0.4) else node[0] + ch
    return {
        "tree": tree, "sep": sep, "pos": pos,
        "opts": gen_opts(rng, attr_keys, t_height(tree)),
        "child_key": rng.choice(["children", "children", "kids", "#c"]),
        "dup": dup,
        "cls": "BinaryNode" if binary else ("VNode" if rng.random() < 0.15 else "Node"), "right_only": rng.random() < 0.5,
        "stratum": f"{'bin-' if binary else ''}{'k3-' if k3 else 'multi-' if multi else ''}{shape_kind}/{pool_name}",
    }


def _leaf(name, **kw):
    return [name, sorted([[k, v] for k, v in kw.items()]), []]


def _opts(**kw):
    o = {"name_key": "name", "parent_key": "", "path_col": "path", "attr_dict": [], "all_attrs": False,
         "max_depth": 0, "skip_depth": 0, "leaf_only": False}
    o.update(kw)
    return o


def _chain(names, attrs=None):
    t = None
    for nm in reversed(names):
        t = [nm, sorted([[k, v] for k, v in (attrs or {}).items()]), [] if t is None else [t]]
    return t


def corpus(prop):
    out = []
    fixture = ["a", [["age", 90]], [
        ["b", [["age", 65]], [["d", [["age", 40]], []],
                              ["e", [["age", 35]], [["g", [["age", 10]], []], ["h", [["age", 6]], []]]]]],
        ["c", [["age", 60]], [["f", [["age", 38]], []]]]]]
    out.append(("fixture", {"tree": fixture, "sep": "/", "pos": [],
                            "opts": _opts(parent_key="parent", attr_dict=[["age", "person age"]]),
                            "child_key": "children", "stratum": "corpus"}))
    out.append(("fixture-inner", {"tree": fixture, "sep": "/", "pos": [0, 1],
                                  "opts": _opts(parent_key="parent", all_attrs=True, max_depth=3),
                                  "child_key": "children", "stratum": "corpus"}))
    deep = _chain(["r", "s", "t", "u", "v", "w", "x"], {"age": 1, "w": "q"})
    deep[2].append(["s2", [], [["t2", [], []]]])
    out.append(("deep-skip", {"tree": deep, "sep": "|", "pos": [],
                              "opts": _opts(parent_key="p", skip_depth=5, attr_dict=[["age", "A"], ["w", "B"]]),
                              "child_key": "children", "stratum": "corpus"}))
    out.append(("deep-leaf-max", {"tree": deep, "sep": ".", "pos": [0],
                                  "opts": _opts(parent_key="p", max_depth=4, leaf_only=True),
                                  "child_key": "kids", "stratum": "corpus"}))
    out.append(("nested-keyerror", {"tree": deep, "sep": "/", "pos": [0, 0, 0],
                                    "opts": _opts(max_depth=2), "child_key": "children", "stratum": "corpus"}))
    # K3-C06: multi-character separator; rstrip/lstrip strip a character SET
    k3 = ["r", [], [["a-", [["age", 1]], []], ["b", [], []]]]
    out.append(("K3-multichar-sep", {"tree": k3, "sep": "->", "pos": [], "opts": _opts(all_attrs=True),
                                     "child_key": "children", "stratum": "corpus-K3"}))
    return out


def generate(prop, rng, tier):
    count = {"quick": 800, "thorough": 20000, "search": 2400}[tier]
    for _ in range(count):
        c = gen_case(rng)
        yield c["stratum"], c
    if tier == "thorough":
        # every ordered tree shape with <= 6 nodes, distinct names, all gate combinations sampled
        for sh in _all_shapes(6):
            for _ in range(3):
                pool = NAME_POOLS["distinct"]
                tree = decorate(rng, sh, pool, ["age"], 0.0)
                nodes = t_nodes(tree)
                yield "exhaustive-shape", {
                    "tree": tree, "sep": "/", "pos": list(rng.choice(nodes)[1]),
                    "opts": gen_opts(rng, ["age"], t_height(tree)), "child_key": "children",
                    "stratum": "exhaustive-shape"}


def _all_forests(n):
    """all ordered forests with n nodes"""
    if n == 0:
        return [[]]
    out = []
    for k in range(1, n + 1):          # size of the first tree
        for kids in _all_forests(k - 1):
            for rest in _all_forests(n - k):
                out.append([kids] + rest)
    return out


def _all_shapes(nmax):
    import copy
    out = []
    for n in range(1, nmax + 1):
        for f in _all_forests(n - 1):
            out.append(copy.deepcopy(f))
    return out


# ---------------------------------------------------------------------------------------------
# shrinking, evidence


def _multichar(case):
    return len(case["sep"]) != 1


def _k3_shape(case):
    """a multi-character separator one of whose characters starts or ends some name"""
    sep = case["sep"]
    return len(sep) > 1 and any(n[2][0][:1] in sep or n[2][0][-1:] in sep for n in t_nodes(case["tree"]))


def matches_finding(prop, entry, case, obs, flags):
    # K3: lstrip(sep)/rstrip(sep) (and the pandas / polars string ops) strip a character set; only
    # reachable with a separator of more than one character
    # and only when the model predicts exactly what was observed and the property is what fails
    return entry.get("id") == "K3-C06" and _k3_shape(case) and flags == 2


def shrink_candidates(prop, case):
    t = case["tree"]

    def with_tree(nt, pos=None):
        c = dict(case)
        c["tree"] = nt
        c["pos"] = [] if pos is None else pos
        return c

    # drop one subtree (start node reset to the root when its position disappears)
    def drops(node):
        for i in range(len(node[2])):
            yield [node[0], node[1], node[2][:i] + node[2][i + 1:]]
        for i, k in enumerate(node[2]):
            for nk in drops(k):
                yield [node[0], node[1], node[2][:i] + [nk] + node[2][i + 1:]]

    def valid_pos(nt, pos):
        cur = nt
        for i in pos:
            if i >= len(cur[2]):
                return False
            cur = cur[2][i]
        return True

    for nt in drops(t):
        yield with_tree(nt, case["pos"] if valid_pos(nt, case["pos"]) else [])
    if case["pos"]:
        yield with_tree(t, [])
        yield with_tree(t, case["pos"][:-1])

    # drop attributes
    def strip(node):
        return [node[0], [], [strip(k) for k in node[2]]]
    if any(n[2][1] for n in t_nodes(t)):
        yield with_tree(strip(t), case["pos"])
    o = case["opts"]
    for key, neutral in (("max_depth", 0), ("skip_depth", 0), ("leaf_only", False), ("all_attrs", False),
                         ("parent_key", ""), ("attr_dict", [])):
        if o[key] != neutral:
            c = dict(case)
            c["opts"] = dict(o)
            c["opts"][key] = neutral
            yield c
    if len(o["attr_dict"]) > 1:
        for i in range(len(o["attr_dict"])):
            c = dict(case)
            c["opts"] = dict(o)
            c["opts"]["attr_dict"] = o["attr_dict"][:i] + o["attr_dict"][i + 1:]
            yield c
    if case["sep"] != "/" and len(case["sep"]) == 1:
        c = dict(case)
        c["sep"] = "/"
        yield c


def size(case):
    o = case["opts"]
    return (10 * t_size(case["tree"]) + sum(len(n[2][1]) for n in t_nodes(case["tree"])) + len(case["pos"])
            + len(o["attr_dict"]) + bool(o["max_depth"]) + bool(o["skip_depth"]) + bool(o["leaf_only"])
            + bool(o["all_attrs"]) + bool(o["parent_key"]))


def nontrivial(prop, case, obs):
    # at least 4 nodes, depth >= 3, and the dict export selected at least one node but not all of them
    # or carries at least one attribute value
    n = t_size(case["tree"])
    if n < 4 or t_height(case["tree"]) < 3 or obs.get("dict") is None:
        return False
    sel = len(obs["dict"])
    has_attr = any(len(r) > 1 for _, r in obs["dict"])
    return sel >= 1 and (sel < n or has_attr)


def sample(prop, case, obs):
    return {"tree": case["tree"], "sep": case["sep"], "start": case["pos"], "opts": case["opts"],
            "dict_export": obs.get("dict"), "rebuilt_from_dict": obs.get("rt_dict")}


def rule(prop):
    return ("random Node trees (2-11 nodes; shapes wide/deep/mixed/path/star; name pools distinct/repeated/affix/special; "
            "separators / \\ - . | and, in 30 % of the cases, -> :: => // -|-; typed attributes incl. falsy values, nulls, a private one, floats, container values (list/dict/set/tuple/nested, also empty), "
            "different attribute sets per node; the two polars entry points are not called for trees carrying tuples or ragged "
            "nested containers (polars itself refuses such columns); "
            "12 % built from BinaryNode with empty left/right slots) x random start node x random option sets "
            "(name/parent/path keys incl. empty, child_key, attr_dict incl. missing attribute and key collision, all_attrs, max_depth, "
            "skip_depth, leaf_only), each run ON ONE TREE OBJECT through the four exporters (three of them twice, results must "
            "repeat), then the four export->constructor round trips (nested pair with the case's name_key/child_key; path "
            "constructors with duplicate_name_allowed True/False and the tree's separator; the rebuilt root's sep is observed), and "
            "the source tree must be unchanged at the end; every round trip snapshots the export object before the import and compares "
            "it afterwards, imports the SAME object a second time with node_type = a user subclass with value semantics (__eq__/__hash__ "
            "by name) and requires the same tree, and re-exports the imported tree (must reproduce the export; frames modulo null "
            "cells; path formats only where no separator character occurs in a name); 15 % of the source trees are built from that "
            "value-semantics subclass; "
            "non-trivial = >= 4 nodes, height >= 3, dict export non-empty and either a proper subset of the nodes or carrying "
            "attribute values; distinct by canonical JSON hash")


def explain(prop, case, obs, flags):
    from ._base import explain as base
    return base(prop, case, obs, flags)


def trusted_base(prop):
    return COMMON_TB + [
        "pandas / polars frames are observed through to_dict('records') / to_dicts() with NaN/None -> null and "
        "integral floats -> int; a frame is modelled as the list of its row dicts over the union of the keys",
        "copy.deepcopy of a Node copies the whole tree and returns the copy of the start node (modelled as: export "
        "works on the root plus the start position)",
    ]


def partial_clauses(prop):
    return [
        "round trips through dict_to_tree / dataframe_to_tree / polars_to_tree are proved for separators of ANY positive "
        "length under the character-wise guard sep_free (sep <> '' and no CHARACTER of sep occurs in a name; names non-empty): "
        "C06_dict_roundtrip_multi, C06_dataframe_roundtrip_multi, C06_polars_roundtrip_multi, C06_paths_distinct_multi, "
        "C06_dict_records_node_tree_multi; the one-character theorems (guard: separator not a substring of a name) are their "
        "special cases.  NOT covered and false on the faithful model: multi-character separators whose characters occur in a "
        "name without the separator itself occurring (a name starting / ending with such a character is mangled by the "
        "character-set lstrip/rstrip: C06_dict_roundtrip_multichar_refuted = known finding K3-C06); names that merely contain "
        "such a character in the middle are outside the proved guard but are not known to fail",
        "frame round trip, now exact: C06_dataframe_roundtrip_nulls / C06_polars_roundtrip_nulls (re-imported tree = source tree "
        "with exactly the null-valued attributes removed), C06_frame_columns_first_seen + C06_dataframe_attr_order (columns = keys "
        "in first-seen order over the pre-order records; every re-imported node carries, in column order, its non-null cells -- no "
        "sorting in the statement).  Still restricted: no attribute called 'path'; a missing cell and a None cell are one null in the "
        "frame model (cells are not modelled as option val)",
        "partial exports: records = records of the selected nodes for every gate combination and start node (proved); re-import "
        "proved for max_depth from the root (C06_dict_roundtrip_max_depth: the source cut below max_depth).  NOT proved in general, "
        "only shown on the model and replayed on /repo (C06_partial_reimport_shapes): skip_depth / leaf_only / inner start node, where "
        "dict_to_tree re-creates the missing ancestors as bare nodes; the frame and nested variants of the partial re-import",
        "umbrella C06_all_formats / C06_all_formats_onechar: the property decision holds of the model for the four exports (any start "
        "node, any options) and the four full round trips with default constructor arguments",
        "theorems cover the constructors' default arguments; duplicate_name_allowed=False and a caller-chosen name_key / "
        "child_key of the nested pair are modelled (grow_nodup, rt_nested_with) and checked by correspondence, not proved",
        # accepted blind spots of the correspondence (audit of 2026-10-01)
        "NOT compared: key order inside an exported record / column order and dtypes and index of a frame (records are "
        "compared as finite maps, a frame as its row dicts); a frame without columns shows no rows; `children: []` on a leaf of a "
        "nested dict is not told apart from a missing child key; the exception class (accepted / rejected only)",
        "pandas observations (tree_to_dataframe rows, tree rebuilt by dataframe_to_tree) fold NaN into null and integral floats "
        "into ints, because pandas itself turns an int column with missing cells into float64; every other observation is strict",
        "path round trips are compared only for trees in which no name contains the separator (outside, paths collide and the "
        "outcome depends on pandas' rendering of cells); attribute values drawn: int, str, bool, None, non-integral floats, and "
        "(as opaque values of the model) lists, dicts, sets, tuples, nested containers incl. empty ones, one kind per attribute key; "
        "never generated: NaN and integral floats as attribute values (pandas cannot tell them from a missing cell / an int), "
        "mixed kinds under one key, non-str names; attribute NAMES drawn include affixes / superstrings of built-in names and "
        "option values (name_en, names, nam, xname, paths, pathx, parent_id, childrens, sepx, depthx, n, p, x, y, shift, kid) under "
        "all_attrs and attr_dict; excluded by design: names starting with '_' are never exported by all_attrs (one such attribute is "
        "generated to check exactly that), names EQUAL to a Node member (name, path_name, children, parent, sep, depth ...) or to the "
        "name/parent/path/child key in use (they collide inside the record); attribute names that are Node members, negative depths, custom Node "
        "subclasses / node_type=, explicit path_col / attribute_cols of the frame constructors, a constructor separator different "
        "from the tree's; multi-character separators are drawn in 30 % of the cases ('->', '::', '=>', '//', '-|-'), 80 % of "
        "them with letter-only names (the proved guard), 20 % with one name starting / ending with a separator character "
        "(K3 territory, excused only when the model agrees and only the round-trip predicate is false)",
        "NOT exercised because the unchanged tree itself misbehaves there (reported as a possible finding): user subclasses whose "
        "instances can be falsy (__len__ = number of children): every exporter drops the leaves (`if node:`) and the path "
        "constructors raise TreeError on paths of depth >= 3 (`if not node:` in add_path_to_tree)",
    ]


def assumptions(prop):
    return ["attribute names are not members of Node (depth, children, sep, ...), max_depth/skip_depth >= 0, "
            "one value type per attribute key (polars columns are homogeneous)",
            "round trips through path-based constructors are claimed for separators none of whose characters occurs in a name "
            "(proved) and checked against the weaker substring guard (where multi-character separators expose K3-C06)"]
