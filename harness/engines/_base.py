"""Defaults shared by the engines (each engine module overrides what it needs)."""
import json

EXN_CODES = {
    "TypeError": 1, "ValueError": 2, "AttributeError": 3, "IndexError": 4, "KeyError": 5,
    "LoopError": 6, "TreeError": 7, "NotFoundError": 8, "SearchError": 9,
    "DuplicatedNodeError": 10, "CorruptedTreeError": 11, "HookFault": 12,
}


def exn_code(e: BaseException) -> int:
    return EXN_CODES.get(type(e).__name__, 13)


def corpus(prop):
    return []


def matches_finding(prop, entry, case, obs, flags):
    return False


def size(case):
    return len(json.dumps(case, default=str))


def shrink_candidates(prop, case):
    return []


def explain(prop, case, obs, flags):
    if isinstance(obs, dict) and "_harness_error" in obs:
        return "the implementation could not be observed on this case: " + obs["_harness_error"]
    if flags & 2:
        return "the property predicate evaluates to false on the implementation's output for this case"
    return ("model and implementation disagree on this case; the property predicate still holds on the "
            "implementation's output here, so the correspondence (not a concrete failing input) is what is reported")


def nontrivial(prop, case, obs):
    return True


def sample(prop, case, obs):
    return {"case": case}


def partial_clauses(prop):
    return []


def assumptions(prop):
    return []


COMMON_TB = [
    "Coq 8.16.1 kernel incl. its vm_compute machine (no native_compute)",
    "hand-written Gallina model tied to /repo by this correspondence run (harness generators, runners, literal emitter, Corr/*.v decoders)",
    "CPython object model and list/str/dict methods are modelled, not verified",
]


def trusted_base(prop):
    return list(COMMON_TB)
