"""Engine `relation` (C13): relation lists / DataFrames, nested dictionaries and heap lists fed to
list_to_tree_by_relation, dataframe_to_tree_by_relation, polars_to_tree_by_relation, nested_dict_to_tree and
list_to_binarytree; the returned tree (or the fact that the call raised) is compared with Algo/Relation.v and the
predicates of Spec/PC13.v are evaluated on it."""
import json
import math
import os
import warnings

from ..core import cbool, clist, cpair, cstr, cZ, copt
from ._base import *  # noqa
from ._base import exn_code, COMMON_TB

SERVES = ["C13"]
COQ_TARGETS = ["theories/Corr/RelationCorr.vo"]
CASES_PER_FILE = 120


def coq_header(prop):
    return "From BT Require Import Base.Prelude Base.Str Base.Rose Algo.Relation Spec.PC13 Corr.RelationCorr."


def coq_case_type(prop):
    return "rcase"


def coq_check(prop):
    return "check_C13"


# ---------------------------------------------------------------------------------------------
# implementation side

ENTRY_CODE = {"list": 0, "pandas": 1, "polars": 2}
_MODS = {}


def _mods():
    if not _MODS:
        os.environ.setdefault("POLARS_MAX_THREADS", "1")
        warnings.filterwarnings("ignore")
        import pandas as pd
        import polars as pl
        from bigtree.tree import construct
        from bigtree.binarytree.construct import list_to_binarytree
        _MODS.update(pd=pd, pl=pl, construct=construct, l2b=list_to_binarytree)
    return _MODS


TAG = "\x01"          # prefix of the canonical rendering of values the Coq `val` type has no constructor for


def _float_canon(x):
    if math.isnan(x):
        return TAG + "float:nan"
    if math.isinf(x):
        return TAG + "float:" + repr(x)
    if x == int(x):
        return int(x)                       # 2.0 folds to 2 (pandas turns int columns with gaps into floats)
    n, d = x.as_integer_ratio()
    return ["$float", n, d]


def _canon_val(v):
    """an attribute value found on a result node -> JSON scalar / ["$float", num, den] / tagged string"""
    import decimal
    if v is None:
        return None
    if isinstance(v, bool):
        return bool(v)
    if isinstance(v, int):
        return int(v)
    if isinstance(v, float):
        return _float_canon(float(v))
    if isinstance(v, str):
        return v
    if isinstance(v, decimal.Decimal):
        return TAG + "Decimal:" + str(v)
    if isinstance(v, (list, tuple)):
        return TAG + type(v).__name__ + ":" + json.dumps([_canon_val(x) for x in v])
    if type(v).__name__ == "NAType":
        return TAG + "NA"
    if hasattr(v, "item"):          # numpy scalar
        return _canon_val(v.item())
    raise TypeError(f"attribute value of type {type(v).__name__}")


def _py(v):
    """a case value -> the Python object handed to bigtree ({"$": kind, "v": ...} = a value JSON cannot carry)"""
    if not isinstance(v, dict):
        return v
    import decimal
    import numpy as np
    import pandas as pd
    k = v["$"]
    if k == "float":
        return float(v["v"])
    if k == "nan":
        return float("nan")
    if k == "na":
        return pd.NA
    if k == "dec":
        return decimal.Decimal(v["v"])
    if k == "npint":
        return np.int64(v["v"])
    if k == "npfloat":
        return np.float64(v["v"])
    if k == "list":
        return list(v["v"])
    raise ValueError(k)


def _mval(v, nulls_are_missing):
    """a case value -> what the model sees.  In relation rows None / NaN (float, numpy) / pd.NA are 'no value'
    (dropped by design, assertions.isnull + pandas' own NA handling); in a nested dictionary they are values."""
    if not isinstance(v, dict):
        return v
    k = v["$"]
    if k == "float":
        return _float_canon(float(v["v"]))
    if k == "npfloat":
        x = float(v["v"])
        return None if (nulls_are_missing and math.isnan(x)) else _float_canon(x)
    if k == "nan":
        return None if nulls_are_missing else TAG + "float:nan"
    if k == "na":
        return None if nulls_are_missing else TAG + "NA"
    if k == "dec":
        import decimal
        return TAG + "Decimal:" + str(decimal.Decimal(v["v"]))
    if k == "npint":
        return int(v["v"])
    if k == "list":
        return TAG + "list:" + json.dumps(v["v"])
    raise ValueError(k)


import re as _re
_INTERNAL = _re.compile(r"^(name|_sep|_extra|_[A-Za-z]*Node__\w+)$")     # the library's own instance fields


def _nm(x):
    """a node / row name -> the string the model works with: a str is itself, an int id is a tagged string (so 7 and
    "7" are different names, and a name that came back as another type is a difference)"""
    if isinstance(x, str):
        return x
    if isinstance(x, bool):
        raise TypeError("bool as a name")
    if isinstance(x, int):
        return TAG + "int:" + str(x)
    if hasattr(x, "item") and type(x).__name__.startswith("int"):      # numpy integer read back from a frame
        return TAG + "int:" + str(int(x))
    raise TypeError(f"name of type {type(x).__name__}: {x!r}")


def _obs_tree(root):
    """pre-order (depth, name, attributes sorted by key); public instance attributes except `name`."""
    out = []
    todo = [(root, 0)]
    while todo:
        n, d = todo.pop()
        name = _nm(n.node_name)
        at = sorted((k, _canon_val(v)) for k, v in vars(n).items() if not _INTERNAL.match(k))
        out.append([d, name, [list(kv) for kv in at]])
        if len(out) > 400:
            raise ValueError("result tree too large")
        for c in reversed(list(n.children)):
            todo.append((c, d + 1))
    return out


def _obs_bin(n, depth=0):
    if n is None:
        return None
    if depth > 50:
        raise ValueError("binary tree too deep")
    if type(n.val) is not int:
        raise TypeError("val is not an int")
    return [n.val, _obs_bin(n.left, depth + 1), _obs_bin(n.right, depth + 1)]


def _call(f, conv):
    try:
        with warnings.catch_warnings():
            warnings.simplefilter("ignore")
            r = f()
    except RecursionError:
        return {"err": 13}
    except Exception as e:
        return {"err": exn_code(e)}
    return {"ok": conv(r)}


def _py_dict(d, name_key, child_key, memo=None):
    """the Python dictionary denoted by a case node; nodes carrying the same "share" id are ONE Python object
    (a template sub-dictionary nested under several parents)"""
    if memo is None:
        memo = {}
    sid = d.get("share")
    if sid is not None and sid in memo:
        return memo[sid]
    out = _py_dict1(d, name_key, child_key, memo)
    if sid is not None:
        memo[sid] = out
    return out


def _py_dict1(d, name_key, child_key, memo):
    items = [(k, _py(v)) for k, v in d["entries"]]
    ck = d["ckind"]
    if ck != "missing":
        if ck == "list":
            val = [_py_dict(k, name_key, child_key, memo) for k in d["kids"]]
        else:
            val = {"str": "zz", "int": 3, "none": None, "dict": {name_key: "q"},
                   "tuple": tuple({name_key: f"t{i}"} for i in range(2))}[d["bad"]]
        pos = min(d.get("cpos", len(items)), len(items))
        items.insert(pos, (child_key, val))
    return dict(items)


def _ctype(case, k):
    return (case.get("ctypes") or {}).get(k, BASE_TYPES.get(k, "str"))


BASE_TYPES = {"age": "int", "tag": "str", "flag": "bool", "w": "float", "obj": "obj"}


class ObsError(Exception):
    """something the property cares about and the Coq case type has no field for (node classes, the returned node
    being the root, parent/children links, repeatability, caller's input unchanged); reported by the driver as a
    disagreement with the text of this exception"""


def _node_types(m):
    if "VNode" not in m:
        from bigtree.node.node import Node
        from bigtree.node.binarynode import BinaryNode

        class VNode(Node):
            pass

        class VBinary(BinaryNode):
            pass

        class EqNode(Node):
            """value semantics: nodes whose names differ only in case compare (and hash) equal"""
            def __eq__(self, other):
                return isinstance(other, EqNode) and self.node_name.lower() == other.node_name.lower()

            def __hash__(self):
                return hash(self.node_name.lower())

        class LenNode(Node):
            """instances are falsy while they have no children"""
            def __len__(self):
                return len(self.children)

        class FalseNode(Node):
            def __bool__(self):
                return False

        class KwNode(Node):
            """an extra constructor argument and a read-only property"""
            def __init__(self, name="", extra=7, **kwargs):
                super().__init__(name, **kwargs)
                self._extra = extra

            @property
            def label(self):
                return str(self.node_name).upper()

        class EqBinary(BinaryNode):
            def __eq__(self, other):
                return isinstance(other, EqBinary) and self.val == other.val

            def __hash__(self):
                return hash(self.val)

        class KwBinary(BinaryNode):
            def __init__(self, name="", extra=7, **kwargs):
                super().__init__(name, **kwargs)
                self._extra = extra

            @property
            def label(self):
                return "#" + self.name
        m.update(Node=Node, BinaryNode=BinaryNode, VNode=VNode, VBinary=VBinary,
                 NT={None: Node, "custom": VNode, "eq": EqNode, "len": LenNode, "false": FalseNode, "kw": KwNode},
                 BT={None: BinaryNode, "custom": VBinary, "eq": EqBinary, "kw": KwBinary})
    return m


def _check_result(root, cls):
    """the returned node is the root of a consistently linked tree whose nodes all have exactly the class asked for"""
    if root.parent is not None:
        raise ObsError("the returned node is not the root (it has a parent)")
    todo = [root]
    seen = 0
    while todo:
        n = todo.pop()
        seen += 1
        if seen > 500:
            raise ObsError("result too large")
        if type(n) is not cls:
            raise ObsError(f"node {n.node_name!r} has class {type(n).__name__}, expected {cls.__name__}")
        for c in n.children:
            if c is None:
                continue
            if c.parent is not n:
                raise ObsError(f"child {c.node_name!r} of {n.node_name!r} does not point back to its parent")
            todo.append(c)


def _twice(build, conv, cls):
    """call, observe, call again with the very same argument objects: same outcome"""
    def one():
        def conv2(r):
            _check_result(r, cls)
            return conv(r)
        return _call(build, conv2)
    first = one()
    if first.get("err") == 13:          # RecursionError: slow, not repeated
        return first
    second = one()
    if first != second:
        raise ObsError(f"a second call with the same argument objects gives a different result: {first} / {second}")
    return first


def _heap_val(x):
    """["f", "2.5"] float, ["d", "2.5"] Decimal, ["ni", 3] numpy int64, ["nf", "2.5"] numpy float64, ["b", true] bool"""
    if not isinstance(x, list):
        return x
    if x[0] == "f":
        return float(x[1])
    if x[0] == "d":
        import decimal
        return decimal.Decimal(x[1])
    if x[0] == "ni":
        import numpy as np
        return np.int64(x[1])
    if x[0] == "nf":
        import numpy as np
        return np.float64(x[1])
    if x[0] == "b":
        return bool(x[1])
    raise ValueError(x)


def _heap_key(x):
    """what a BinaryNode shows of its element: name = str(x) and val = int(x)"""
    return str(x) + "|" + str(int(x))


def _heap_codes(l):
    """numbers of a heap list -> small integer codes (equal type and value = equal code): the model only moves the
    elements around, so ints, floats, 0 / 0.0 / negative values are all just labels"""
    codes = {}
    for x in l:
        codes.setdefault(_heap_key(x), len(codes))
    return codes


def run_impl(prop, case):
    m = _node_types(_mods())
    kind = case["kind"]
    custom = case.get("node_type") is not None
    if kind == "rel":
        import copy
        pd, pl, C = m["pd"], m["pl"], m["construct"]
        rows, cols, ad = case["rows"], case["cols"], case["allow_dup"]
        cls = m["NT"][case.get("node_type")]
        kw = {"node_type": cls} if custom else {}
        if ad or case.get("ad_explicit"):
            kw["allow_duplicates"] = ad
        spec = case.get("colspec") or {}
        cn, pn = spec.get("child", "child"), spec.get("parent", "parent")
        order = spec.get("order") or ([cn, pn] + cols)
        fkw = dict(kw)
        given = spec.get("given") or ("both" if spec.get("explicit") else "none")
        fargs = []
        if case.get("positional"):
            # child_col, parent_col as 2nd / 3rd positional argument ("" = the documented "not given")
            fargs = [cn if given in ("both", "child") else "", pn if given in ("both", "parent") else ""]
        else:
            if given in ("both", "child"):
                fkw["child_col"] = cn
            if given in ("both", "parent"):
                fkw["parent_col"] = pn
        if case.get("attr_sel"):
            fkw["attribute_cols"] = list(case["attr_sel"])
        lkw, largs = dict(kw), []
        if case.get("positional") and "allow_duplicates" in lkw:
            largs = [lkw.pop("allow_duplicates")]
        import numpy as np
        nulls = case.get("nulls") or []
        NULL = {"none": None, "nan": np.nan, "na": pd.NA}

        def parent_of(i, polars=False):
            p = rows[i][1]
            if p is not None or polars:
                return p
            return NULL[nulls[i] if i < len(nulls) else "none"]      # "no parent" spelled None / NaN / pd.NA
        cell = lambda i, k, polars=False: rows[i][0] if k == cn else parent_of(i, polars) if k == pn \
            else _py(rows[i][2].get(k))
        obs = {}
        for entry in case["entries"]:
            if entry == "list":
                prs = [(parent_of(i), rows[i][0]) for i in range(len(rows))]
                mk = {"tuples": lambda: list(prs), "lists": lambda: [list(x) for x in prs],
                      "tuple": lambda: tuple(prs)}[case.get("relform", "tuples")]
                rel = mk()
                before = copy.deepcopy(rel)
                obs[entry] = _twice(lambda: C.list_to_tree_by_relation(rel, *largs, **lkw), _obs_tree, cls)
                if rel != before or type(rel) is not type(before):
                    raise ObsError("list_to_tree_by_relation changed the caller's relation list")
            elif entry == "pandas":
                # object columns keep None / NaN / pd.NA as given; pandas' own inference turns them all into NaN
                data = [[cell(i, k) for k in order] for i in range(len(rows))]
                if case.get("dtype") == "default":
                    df = pd.DataFrame(data, columns=order)
                else:
                    df = pd.DataFrame(data, columns=order, dtype=object)
                if case.get("index") is not None:
                    df.index = list(case["index"])      # non-default row labels (repeated / shuffled / strings)
                before = df.copy(deep=True)
                obs[entry] = _twice(lambda: C.dataframe_to_tree_by_relation(df, *fargs, **fkw), _obs_tree, cls)
                if not (list(df.columns) == list(before.columns) and list(df.index) == list(before.index)
                        and df.equals(before) and list(df.dtypes) == list(before.dtypes)):
                    raise ObsError("dataframe_to_tree_by_relation changed the caller's DataFrame")
            else:
                schema = {}
                for k in order:
                    schema[k] = (pl.Int64 if case.get("names") == "int" else pl.Utf8) if k in (cn, pn) else \
                        {"int": pl.Int64, "bool": pl.Boolean, "str": pl.Utf8, "float": pl.Float64}[_ctype(case, k)]
                data = [[cell(i, k, True) for k in order] for i in range(len(rows))]
                df = pl.DataFrame(data, schema=schema, orient="row")
                before = df.clone()
                obs[entry] = _twice(lambda: C.polars_to_tree_by_relation(df, *fargs, **fkw), _obs_tree, cls)
                if not (df.columns == before.columns and df.equals(before)):
                    raise ObsError("polars_to_tree_by_relation changed the caller's DataFrame")
        return obs
    if kind == "nest":
        C = m["construct"]
        import copy
        cls = m["NT"][case.get("node_type")]
        kw = {"node_type": cls} if custom else {}
        if case["name_key"] != "name" or case.get("keys_explicit"):
            kw["name_key"] = case["name_key"]
        if case["child_key"] != "children" or case.get("keys_explicit"):
            kw["child_key"] = case["child_key"]
        d = _py_dict(case["dict"], case["name_key"], case["child_key"])
        before = copy.deepcopy(d)

        def conv(r):
            _check_result(r, cls)
            return _obs_tree(r)
        nargs = []
        if case.get("positional"):
            nargs = [kw.pop("name_key", "name"), kw.pop("child_key", "children")]
        build = lambda: C.nested_dict_to_tree(d, *nargs, **kw)
        first = _call(build, conv)
        unchanged1 = (d == before)
        second = _call(build, conv)        # the very same input object once more
        return {"first": first, "second": second, "unchanged": bool(unchanged1 and d == before)}
    if kind == "heap":
        import copy
        cls = m["BT"][case.get("node_type")]
        kw = {"node_type": cls} if custom else {}
        vals = [_heap_val(x) for x in case["list"]]
        arg = tuple(vals) if case.get("as_tuple") else list(vals)
        before = copy.deepcopy(arg)
        codes = _heap_codes(vals)
        by_name = {}
        for x in vals:
            by_name.setdefault(str(x), x)

        def conv(root):
            def go(n, depth):
                if n is None:
                    return None
                if depth > 50:
                    raise ObsError("binary tree too deep")
                if n.name not in by_name:
                    raise ObsError(f"node name {n.name!r} is not str() of an element of the list")
                x = by_name[n.name]
                if type(n.val) is not int or n.val != int(x):
                    raise ObsError(f"node {n.name!r} has val {n.val!r}, expected int({x!r})")
                if len(n.children) != 2:
                    raise ObsError("a BinaryNode without exactly two child slots")
                return [codes[_heap_key(x)], go(n.left, depth + 1), go(n.right, depth + 1)]
            return go(root, 0)
        hargs = [kw.pop("node_type")] if (case.get("positional") and "node_type" in kw) else []
        out = _twice(lambda: m["l2b"](arg, *hargs, **kw), conv, cls)
        if arg != before or [type(x) for x in arg] != [type(x) for x in before]:
            raise ObsError("list_to_binarytree changed the caller's list")
        return out
    raise ValueError(kind)


# ---------------------------------------------------------------------------------------------
# Coq literals


def _cval(v):
    if v is None:
        return "VNone"
    if isinstance(v, bool):
        return f"VBool {cbool(v)}"
    if isinstance(v, int):
        return f"VInt {cZ(v)}"
    if isinstance(v, str):
        return f"VStr {cstr(v)}"
    if isinstance(v, (list, tuple)) and len(v) == 3 and v[0] == "$float":
        return f"VFloat {cZ(int(v[1]))} {cZ(int(v[2]))}"
    raise TypeError(type(v))


def _cattrs(items):
    return clist(cpair(cstr(k), _cval(v)) for k, v in items)


def _ctree_of_pre(pre):
    """nested `T None name attrs kids` term from the pre-order (depth, name, attrs) list"""
    pos = [0]

    def go(depth):
        d, name, at = pre[pos[0]]
        assert d == depth
        pos[0] += 1
        kids = []
        while pos[0] < len(pre) and pre[pos[0]][0] == depth + 1:
            kids.append(go(depth + 1))
        return f"T None {cstr(name)} {_cattrs(at)} {clist(kids)}"

    t = go(0)
    assert pos[0] == len(pre), "depth sequence is not a tree"
    return t


def _cout_tree(o):
    if "ok" in o:
        return f"Acc ({_ctree_of_pre(o['ok'])})"
    return f"Rej {int(o['err'])}"


def _cbin(b):
    def sub(x):
        return "None" if x is None else f"(Some ({_cbin(x)}))"
    return f"BT {cZ(b[0])} {sub(b[1])} {sub(b[2])}"


def _crow(r, cols):
    c, p, a = r
    return (f"({cstr(_nm(c))}, {copt(p, lambda x: cstr(_nm(x)))}, "
            f"{_cattrs([(k, _mval(a.get(k), True)) for k in cols])})")


def _cnd(d, name_key=None):
    ck = {"missing": "CMissing", "bad": "CBad", "list": "CList"}[d["ckind"]]
    kids = d["kids"] if d["ckind"] == "list" else []
    ents = [(k, (_nm(v) if (k == name_key and isinstance(v, int) and not isinstance(v, bool)) else _mval(v, False)))
            for k, v in d["entries"]]
    return f"ND {_cattrs(ents)} {ck} {clist('(' + _cnd(k, name_key) + ')' for k in kids)}"


def emit(prop, case, obs):
    kind = case["kind"]
    if kind == "rel":
        rows = clist(_crow(r, case.get("attr_sel") or case["cols"]) for r in case["rows"])
        outs = clist(cpair(str(ENTRY_CODE[e]), _cout_tree(obs[e])) for e in case["entries"])
        return f"CRel {cbool(case['allow_dup'])} {rows} {outs}"
    if kind == "nest":
        return (f"CNest {cstr(case['name_key'])} ({_cnd(case['dict'], case['name_key'])}) ({_cout_tree(obs['first'])}) "
                f"({_cout_tree(obs['second'])}) {cbool(obs['unchanged'])}")
    if kind == "heap":
        o = f"Acc ({_cbin(obs['ok'])})" if "ok" in obs else f"Rej {int(obs['err'])}"
        vals = [_heap_val(x) for x in case["list"]]
        codes = _heap_codes(vals)
        return f"CHeap {clist(cZ(codes[_heap_key(x)]) for x in vals)} ({o})"
    raise ValueError(kind)


# ---------------------------------------------------------------------------------------------
# generation

NAME_POOLS = {
    "distinct": ["a", "b", "c", "d", "e", "f", "g", "h", "i", "j", "k", "l", "m", "n"],
    "affix": ["a", "xa", "ab", "b", "bc", "abc", "c", "xab", "ca", "bca", "cab", "x", "aa", "ba"],
    "special": ["a.b", "(", "+", "a b", "a'", "0", "a1", "10", "-", "/", "é", "a/b", "None", "nan"],
}
SHAPES = ["wide", "deep", "mixed", "path", "star"]


def gen_shape(rng, shape, nmax=10):
    """parent index list (parent[0] = None), nodes numbered in creation order"""
    n = rng.randint(2, nmax) if shape != "path" else rng.randint(2, 8)
    par = [None]
    kids = {0: 0}
    depth = [0]
    for i in range(1, n):
        if shape == "path":
            p = i - 1
        elif shape == "star":
            p = 0
        elif shape == "wide":
            cands = [q for q in range(i) if kids[q] < 6 and depth[q] < 2]
            p = rng.choice(cands or [0])
        elif shape == "deep":
            cands = [q for q in range(i) if depth[q] < 7]
            p = max(rng.choice(cands), rng.choice(cands))
        else:
            p = rng.randrange(i)
        par.append(p)
        kids[p] = kids.get(p, 0) + 1
        kids[i] = 0
        depth.append(depth[p] + 1)
    return par


def preorder(par):
    ch = {i: [] for i in range(len(par))}
    for i, p in enumerate(par):
        if p is not None:
            ch[p].append(i)
    out = []

    def go(i):
        out.append(i)
        for c in ch[i]:
            go(c)
    go(0)
    return out, ch


def gen_names(rng, par, pool_name, leafdup):
    pool = list(NAME_POOLS[pool_name])
    rng.shuffle(pool)
    n = len(par)
    names = [pool[i % len(pool)] + ("" if i < len(pool) else str(i)) for i in range(n)]
    if leafdup:
        _, ch = preorder(par)
        leaves = [i for i in range(1, n) if not ch[i]]
        rng.shuffle(leaves)
        for i in leaves[: rng.randint(1, max(1, len(leaves) // 2 + 1))]:
            others = [j for j in leaves if j != i and par[j] != par[i]
                      and all(names[s] != names[j] for s in ch[par[i]] if s != i)]
            if others:
                names[i] = names[rng.choice(others)]
    return names


FL = lambda t: {"$": "float", "v": t}
# strings that look like a missing value or a number are ordinary strings
STR_VALUES = ["t", "u", "", "", "x y", "7", "0", "nan", "NaN", " nan ", "inf", "-inf", "None", "null", "NA", "<NA>",
              "0.0", "1e3", "True", "False"]
# what an object column / a dictionary value can hold; None, NaN and pd.NA mean "no value" in relation rows
OBJ_VALUES = ["nan", " NaN ", "None", "inf", "", 0, False, True, 17, FL("0.0"), FL("2.5"), {"$": "nan"}, None,
              {"$": "na"}, {"$": "list", "v": [1, 2]}, {"$": "list", "v": []}, {"$": "npint", "v": 3},
              {"$": "npint", "v": 0}, {"$": "npfloat", "v": "2.5"}, {"$": "npfloat", "v": "nan"},
              {"$": "dec", "v": "1.50"}, {"$": "dec", "v": "NaN"}, {"$": "dec", "v": "0"}]


def gen_attrs(rng, n, cols):
    out = []
    for i in range(n):
        a = {}
        for k in cols:
            if rng.random() < 0.3:
                a[k] = None
            elif k == "age":
                a[k] = rng.choice([0, 0, rng.randint(-3, 99), rng.randint(-3, 99)])
            elif k == "flag":
                a[k] = rng.random() < 0.5
            elif k == "w":
                a[k] = rng.choice([FL("0.0"), FL("2.5"), FL("-1.5"), FL("0.125"), FL("3.0"), {"$": "nan"}])
            elif k == "obj":
                a[k] = rng.choice(OBJ_VALUES)
            else:
                a[k] = rng.choice(STR_VALUES)
        out.append(a)
    return out


def tree_rows(par, names, attrs, with_root_row):
    order, ch = preorder(par)
    rows = []
    if with_root_row:
        rows.append([names[0], None, attrs[0]])
    for i in order:
        for c in ch[i]:
            rows.append([names[c], names[i], attrs[c]])
    return rows


def order_rows(rng, rows):
    r = rng.random()
    rows = list(rows)
    if r < 0.7:
        rng.shuffle(rows)
    elif r < 0.85:
        rows.reverse()
    return rows


def entries_for(rows, rng=None):
    # (before fix F12 rows with an empty parent could not go through list_to_tree_by_relation under pandas 3)
    return ["list", "pandas", "polars"]


def gen_bushy(rng):
    """18-41 nodes (17-40 relation rows): a few hubs with >= 4 children each, the rest spread at random"""
    n = rng.randint(18, 41)
    nhubs = rng.randint(2, 5)
    par = [None]
    hubs = [0]
    for i in range(1, n):
        if len(hubs) < nhubs and rng.random() < 0.3:
            p = rng.choice(hubs)
            hubs.append(i)
        elif rng.random() < 0.75:
            p = rng.choice(hubs)
        else:
            p = rng.randrange(i)
        par.append(p)
    return par


def short_names(rng, n):
    """n distinct names of 1-2 characters"""
    al = "abcdefghijklmnopqrstuvwxyz"
    pool = list(al) + [x + y for x in "abxy" for y in "abcdxyz01"]
    rng.shuffle(pool)
    return pool[:n]


def gen_rel_valid(rng, shape=None, nmax=10):
    shape = shape or rng.choice(SHAPES)
    if shape == "long":
        par = gen_bushy(rng)
        names = short_names(rng, len(par))
        leafdup = rng.random() < 0.3
        if leafdup:
            _, ch = preorder(par)
            leaves = [i for i in range(1, len(par)) if not ch[i]]
            for i in rng.sample(leaves, min(len(leaves), 3)):
                others = [j for j in leaves if j != i and par[j] != par[i]
                          and all(names[s] != names[j] for s in ch[par[i]] if s != i)]
                if others:
                    names[i] = names[rng.choice(others)]
        cols = rng.choice([[], [], ["age"]])
        attrs = gen_attrs(rng, len(par), cols)
        rows = tree_rows(par, names, attrs, rng.random() < 0.3)
        return par, names, cols, attrs, rows, f"long{'+leafdup' if leafdup else ''}"
    par = gen_shape(rng, shape, nmax)
    pool_name = rng.choice(["distinct", "distinct", "affix", "special"])
    leafdup = rng.random() < 0.4
    names = gen_names(rng, par, pool_name, leafdup)
    cols = rng.choice([[], ["age"], ["age", "tag"], ["age", "tag"], ["flag"], ["age", "flag", "tag"], ["tag", "w"],
                       ["obj"], ["age", "obj"], ["w"]])
    attrs = gen_attrs(rng, len(par), cols)
    rows = tree_rows(par, names, attrs, rng.random() < 0.45)
    return par, names, cols, attrs, rows, f"{shape}/{pool_name}{'+leafdup' if leafdup else ''}"


def descendants(par, x):
    out = set()
    for i in range(len(par)):
        j = i
        while j is not None:
            if j == x and i != x:
                out.add(i)
            j = par[j]
    return out


HEADERS = ["age (years)", "class", "def", "_id", "2024", "a b", "x-y", "é", "1st", "lambda",
           # names that collide with, or are affixes of, names the node classes define
           "depth", "n", "names", "name_en", "path", "shift", "x", "y", "root", "val", "left"]


def _gen_index(rng, rows):
    n = len(rows)
    if n == 0:
        return None
    style = rng.choice(["concat", "concat", "concat3", "shuffled", "strings", "repstrings", "constant"])
    if style == "concat":
        k = rng.randint(1, n)
        labels = list(range(k)) + list(range(n - k))
    elif style == "concat3":
        labels = [i % max(1, (n + 2) // 3) for i in range(n)]
    elif style == "shuffled":
        labels = list(range(n))
        rng.shuffle(labels)
    elif style == "strings":
        labels = [f"r{i}" for i in range(n)]
        rng.shuffle(labels)
    elif style == "repstrings":
        labels = [f"k{i // 2}" for i in range(n)]
        rng.shuffle(labels)
    else:
        labels = [0] * n
    return labels


def _case_variants(rng, rows):
    """rename some names so that siblings differ only in letter case ("ab" / "AB"): different names, but nodes of a
    value-equality subclass compare equal"""
    rows = [list(r) for r in rows]
    used = {c for c, _, _ in rows} | {p for _, p, _ in rows if p is not None}
    by_parent = {}
    for c, p, _ in rows:
        if p is not None:
            by_parent.setdefault(p, []).append(c)
    groups = [cs for cs in by_parent.values() if len(set(cs)) >= 2]
    rng.shuffle(groups)
    for cs in groups[:3]:
        strs = sorted({c for c in cs if isinstance(c, str)})
        if len(strs) < 2:
            continue
        a, b = rng.sample(strs, 2)
        new = a.swapcase()
        if new == a or new in used or not a:
            continue
        used.add(new)
        for r in rows:
            if r[0] == b:
                r[0] = new
            if r[1] == b:
                r[1] = new
    return rows


def _finish_rel(rng, lab, case):
    """attribute column headers that are no Python identifiers; pandas frames with non-default row labels"""
    if case["cols"] and rng.random() < 0.4:
        new = rng.sample(HEADERS, len(case["cols"]))
        ren = dict(zip(case["cols"], new))
        case["ctypes"] = {ren[k]: BASE_TYPES.get(k, "str") for k in case["cols"]}
        case["rows"] = [[c, p, {ren[k]: v for k, v in a.items()}] for c, p, a in case["rows"]]
        case["cols"] = new
        lab += "+headers"
    if "pandas" in case["entries"] and rng.random() < 0.4:
        case["index"] = _gen_index(rng, case["rows"])
        if case["index"] is not None:
            lab += "+index"
    if any(_ctype(case, k) == "obj" for k in case["cols"]):
        case["entries"] = [e for e in case["entries"] if e != "polars"]      # mixed Python objects: no polars column type
    # argument forms and options (the model is the same function of the rows in all of them)
    case["relform"] = rng.choice(["tuples", "tuples", "lists", "tuple"])
    if rng.random() < 0.45:
        case["node_type"] = rng.choice(["custom", "eq", "eq", "len", "false", "kw"])
        lab += "+" + case["node_type"]
        if case["node_type"] == "eq":
            case["rows"] = _case_variants(rng, case["rows"])
    if rng.random() < 0.3:
        case["ad_explicit"] = True                      # allow_duplicates=False passed explicitly
    if not case["allow_dup"] and lab.startswith("rel/valid") and rng.random() < 0.12:
        case["allow_dup"] = True                        # a valid relation list gives the same tree
        lab += "+allowdup"
    if case["rows"] and rng.random() < 0.3:
        case["dtype"] = "default"                       # pandas' own dtype inference
    if any(p is None for _, p, _ in case["rows"]) and rng.random() < 0.6:
        case["nulls"] = [rng.choice(["none", "nan", "nan", "na"]) for _ in case["rows"]]
        lab += "+nullspelling"
    if rng.random() < 0.3:
        case["positional"] = True
    if rng.random() < 0.55:
        cn, pn = rng.choice([("child", "parent"), ("node", "up"), ("c", "p"), ("p", "c"), ("id", "pid"),
                             ("parent", "child"), ("person", "mentor")])
        given = rng.choice(["both", "both", "child", "parent", "child", "parent", "none"])
        cols_ = list(case["cols"])
        rng.shuffle(cols_)
        if given == "both":
            order = [cn, pn] + cols_
            if rng.random() < 0.8:
                rng.shuffle(order)                      # any column order, both hierarchy columns named
        elif given == "none":
            order = [cn, pn] + cols_                    # first column = child, second = parent, by position
        elif given == "parent":
            # child by position (first column); the named parent column anywhere but where the default would look
            rest = cols_[:1] + [pn] + cols_[1:] if cols_ else [pn]
            if len(cols_) >= 2 and rng.random() < 0.5:
                rest = cols_ + [pn]
            order = [cn] + rest
        else:
            # parent by position (second column); the named child column not in first place when possible
            order = ([cols_[0], pn] + cols_[1:] + [cn]) if cols_ else [cn, pn]
            if len(cols_) >= 2 and rng.random() < 0.5:
                order = [cols_[0], pn, cn] + cols_[1:]
        case["colspec"] = {"child": cn, "parent": pn, "given": given, "order": order}
        lab += "+cols:" + given
        if len(case["cols"]) >= 2 and rng.random() < 0.5:
            k = rng.randint(1, len(case["cols"]) - 1)
            case["attr_sel"] = rng.sample(case["cols"], k)      # the other attribute columns must be ignored
            lab += "+attrsel"
    r = rng.random()
    if r < 0.3:
        lab += _int_names(rng, case, "int" if r < 0.18 else "mixed")
    return lab, case


def _int_names(rng, case, mode):
    """rename names to int ids (all of them, or some): equal names stay equal, distinct names stay distinct, an int is
    never used next to its own decimal string, 0 is not used (Node refuses a falsy name)"""
    names = []
    for c, p, _ in case["rows"]:
        for x in (c, p):
            if x is not None and x not in names:
                names.append(x)
    taken = {int(x) for x in names if isinstance(x, str) and x.lstrip("-").isdigit()}
    ids = [i for i in range(1, 3 * len(names) + 20) if i not in taken]
    rng.shuffle(ids)
    chosen = names if mode == "int" else [x for x in names if rng.random() < 0.5]
    ren = {x: ids[i] for i, x in enumerate(chosen)}
    if not ren:
        return ""
    case["rows"] = [[ren.get(c, c), (None if p is None else ren.get(p, p)), a] for c, p, a in case["rows"]]
    if mode == "int" and len(ren) == len(names):
        case["names"] = "int"
    else:
        case["names"] = "mixed"
        case["entries"] = [e for e in case["entries"] if e != "polars"]      # one polars column has one type
    return "+names:" + case["names"]


def gen_rel(rng, force=None):
    return _finish_rel(rng, *_gen_rel(rng, force))


def _gen_rel(rng, force=None):
    r = rng.random()
    kind = force
    if kind is None:
        kind = ("valid" if r < 0.55 else "random" if r < 0.67 else "malformed")
    if kind in ("valid", "long"):
        par, names, cols, attrs, rows, lab = gen_rel_valid(rng, "long" if kind == "long" else None)
        if kind == "long":
            rows = list(rows)
            rng.shuffle(rows)
        else:
            rows = order_rows(rng, rows)
        return "rel/valid/" + lab, {"kind": "rel", "allow_dup": False, "rows": rows, "cols": cols,
                                    "entries": entries_for(rows)}
    if kind == "random":
        names = ["a", "b", "c", "d"][: rng.randint(2, 4)]
        cols = rng.choice([[], ["age"]])
        rows = []
        for _ in range(rng.randint(1, 6)):
            c = rng.choice(names)
            p = None if rng.random() < 0.15 else rng.choice(names)
            rows.append([c, p, {k: rng.choice([None, 1, 2]) for k in cols}])
        ad = rng.random() < 0.25
        if ad and _has_cycle(rows):
            ad = False                      # reachable cycles (RecursionError, slow) only in their own stratum
        return "rel/random", {"kind": "rel", "allow_dup": ad, "rows": rows, "cols": cols,
                              "entries": entries_for(rows)}
    # malformed: a valid relation list with one defect
    par, names, cols, attrs, rows, lab = gen_rel_valid(rng, nmax=8)
    n = len(par)
    _, ch = preorder(par)
    nonleaf = [i for i in range(1, n) if ch[i]]
    has_root_row = any(p is None for _, p, _ in rows)
    defect = force if force and force not in ("malformed",) else rng.choice(
        ["noroot", "tworoots", "nullplus", "nullplus", "ambig", "ambig", "ambig_last", "ambig_null", "duprow",
         "duprow_attr", "cycle_unreach", "selfloop", "allowdup", "two_null", "dup_null", "emptyname"])
    ad = False
    rows = order_rows(rng, rows)
    fresh = lambda k: {c: (k if c == "age" else (k % 2 == 0) if c == "flag" else FL("0.5") if c == "w" else "z")
                       for c in cols}
    if defect == "noroot":
        rows = [r for r in rows if r[1] is not None]
        x = rng.randrange(1, n)
        rows.insert(rng.randint(0, len(rows)), [names[0], names[x], fresh(1)])
    elif defect == "tworoots":
        if rng.random() < 0.5:
            rows.insert(rng.randint(0, len(rows)), ["q1", "q0", fresh(2)])
        else:
            x = rng.randrange(1, n)
            rows = [[c, ("q0" if (c == names[x] and p == names[par[x]]) else p), a] for c, p, a in rows]
    elif defect == "nullplus":
        # an explicit root row and, besides it, a parent name that is never a child
        if not has_root_row:
            rows.insert(rng.randint(0, len(rows)), [names[0], None, attrs[0]])
        if rng.random() < 0.5:
            rows.insert(rng.randint(0, len(rows)), ["q1", "q0", fresh(3)])
        else:
            rows = [[c, None if p is None else ("q0" if p == names[0] else p), a] for c, p, a in rows]
    elif defect in ("ambig", "ambig_last", "allowdup"):
        if not nonleaf:
            return _gen_rel(rng, force)
        x = rng.choice(nonleaf)
        bad = descendants(par, x) | {x, par[x]}
        if defect == "allowdup":
            ad = True
            cands = [q for q in range(n) if q not in bad]     # cycles are filtered out below
        else:
            cands = [q for q in range(n) if q != x and q != par[x]]
        if not cands:
            return _gen_rel(rng, force)
        q = rng.choice(cands)
        row = [names[x], names[q], fresh(4)]
        if defect == "ambig_last":
            rows.append(row)
        else:
            rows.insert(rng.randint(0, len(rows)), row)
        if ad and _has_cycle(rows):
            return _gen_rel(rng, force)
    elif defect == "ambig_null":
        if not nonleaf:
            return _gen_rel(rng, force)
        x = rng.choice(nonleaf)
        rows.insert(rng.randint(0, len(rows)), [names[x], None, fresh(5)])
    elif defect in ("duprow", "duprow_attr"):
        cand = [r for r in rows if r[1] is not None]
        r0 = rng.choice(cand)
        a = dict(r0[2]) if defect == "duprow" else fresh(6)
        rows.insert(rng.randint(0, len(rows)), [r0[0], r0[1], a])
    elif defect == "cycle_unreach":
        rows.insert(rng.randint(0, len(rows)), ["q0", "q1", fresh(7)])
        rows.insert(rng.randint(0, len(rows)), ["q1", "q0", fresh(8)])
        if rng.random() < 0.5:
            rows.insert(rng.randint(0, len(rows)), ["q2", "q1", fresh(9)])
    elif defect == "selfloop":
        if rng.random() < 0.5:
            rows.insert(rng.randint(0, len(rows)), ["q0", "q0", fresh(7)])
        else:
            x = rng.randrange(0, n)
            rows.insert(rng.randint(0, len(rows)), [names[x], names[x], fresh(7)])
    elif defect == "two_null":
        rows = [r for r in rows if r[1] is not None]
        rows.insert(rng.randint(0, len(rows)), [names[0], None, attrs[0]])
        other = "q0" if rng.random() < 0.5 else names[rng.randrange(1, n)]
        rows.insert(rng.randint(0, len(rows)), [other, None, fresh(1)])
    elif defect == "dup_null":
        rows = [r for r in rows if r[1] is not None]
        rows.insert(rng.randint(0, len(rows)), [names[0], None, attrs[0]])
        rows.insert(rng.randint(0, len(rows)), [names[0], None, fresh(2)])
    elif defect == "emptyname":
        # Node refuses an empty name: as a leaf, as an inner node, or as the root
        x = rng.randrange(0, n)
        rows = [[("" if c == names[x] else c), (None if p is None else "" if p == names[x] else p), a]
                for c, p, a in rows]
    elif defect == "cycle_reach":
        if not nonleaf:
            return _gen_rel(rng, force)
        ad = True
        x = rng.choice(nonleaf)
        d = rng.choice(sorted(descendants(par, x)))
        rows.insert(rng.randint(0, len(rows)), [names[x], names[d], fresh(4)])
    return "rel/malformed/" + defect, {"kind": "rel", "allow_dup": ad, "rows": rows, "cols": cols,
                                       "entries": entries_for(rows)}


def _has_cycle(rows):
    """some name reaches itself following parent -> child rows (used to keep allow_duplicates=True cases finite)"""
    adj = {}
    for c, p, _ in rows:
        if p is not None:
            adj.setdefault(p, set()).add(c)
    for s in adj:
        seen, todo = set(), list(adj[s])
        while todo:
            x = todo.pop()
            if x == s:
                return True
            if x not in seen:
                seen.add(x)
                todo.extend(adj.get(x, ()))
    return False


ATTR_KEYS = ["age", "tag", "x", "depth", "names", "name_en", "n", "path", "shift", "y"]


NEST_VALUES = [v for v in OBJ_VALUES if not (isinstance(v, dict) and v["$"] == "npfloat" and v["v"] == "nan")]


def gen_nest(rng, force_malformed=None):
    shape = rng.choice(SHAPES)
    par = gen_shape(rng, shape, 10)
    pool_name = rng.choice(["distinct", "distinct", "affix", "special"])
    names = gen_names(rng, par, pool_name, rng.random() < 0.4)
    name_key = rng.choice(["name", "name", "id", "label"])
    child_key = rng.choice(["children", "children", "kids", "sub"])
    _, ch = preorder(par)
    malformed = rng.random() < 0.25 if force_malformed is None else force_malformed
    victim = rng.randrange(len(par))
    defect = rng.choice(["bad", "bad", "noname", "dupsib", "empty", "emptyname"]) if malformed else None
    if defect == "dupsib":
        wide = [i for i in range(len(par)) if len(ch[i]) >= 2]
        if wide:
            victim = rng.choice(wide)

    def node(i):
        entries = [[name_key, names[i]]]
        for k in ATTR_KEYS:
            if rng.random() < (0.4 if k in ("age", "tag", "x") else 0.08):
                v = rng.choice([0, rng.randint(0, 99)]) if k == "age" else \
                    rng.choice(STR_VALUES) if k == "tag" else rng.choice(NEST_VALUES)
                if rng.random() < 0.1:
                    v = None
                entries.insert(rng.randint(0, len(entries)), [k, v])
        d = {"entries": entries, "cpos": rng.randint(0, len(entries))}
        if ch[i]:
            d["ckind"] = "list"
            d["kids"] = [node(c) for c in ch[i]]
        elif rng.random() < 0.3:
            d["ckind"] = "list"
            d["kids"] = []
        else:
            d["ckind"] = "missing"
            d["kids"] = []
        if i == victim and defect == "bad":
            d["ckind"] = "bad"
            d["bad"] = rng.choice(["str", "int", "none", "tuple", "dict"])
            d["kids"] = []
        if i == victim and defect == "emptyname":
            d["entries"] = [[k, ("" if k == name_key else v)] for k, v in entries]
        if i == victim and defect == "noname":
            d["entries"] = [e for e in entries if e[0] != name_key]
        if i == victim and defect == "dupsib" and len(d["kids"]) >= 2:
            a, b = rng.sample(range(len(d["kids"])), 2)
            nm = [e[1] for e in d["kids"][a]["entries"] if e[0] == name_key]
            if nm:
                d["kids"][b]["entries"] = [[k, (nm[0] if k == name_key else v)] for k, v in d["kids"][b]["entries"]]
        return d

    d = node(0)
    shared = False
    if defect is None and rng.random() < 0.35:
        shared = _share_template(rng, d, name_key)
    if defect == "empty":
        d = {"entries": [], "ckind": "missing", "kids": [], "cpos": 0}
    lab = f"nest/{'malformed/' + defect if defect else 'shared' if shared else 'valid'}/{shape}/{pool_name}/{name_key}-{child_key}"
    case = {"kind": "nest", "name_key": name_key, "child_key": child_key, "dict": d}
    if rng.random() < 0.45:
        case["node_type"] = rng.choice(["custom", "eq", "eq", "len", "false", "kw"])
        lab += "+" + case["node_type"]
        if case["node_type"] == "eq" and defect is None and not shared:
            _nest_case_variants(rng, d, name_key)
    if rng.random() < 0.3:
        case["keys_explicit"] = True
    if rng.random() < 0.3:
        case["positional"] = True
    if defect is None and rng.random() < 0.25:
        _nest_int_names(rng, d, name_key)
        lab += "+intnames"
    return lab, case


def _nest_int_names(rng, d, name_key):
    """some (or all) names become int ids; shared template objects keep one name"""
    names = []

    def collect(x):
        for k, v in x["entries"]:
            if k == name_key and isinstance(v, str) and v not in names:
                names.append(v)
        for k in x["kids"]:
            collect(k)
    collect(d)
    taken = {int(x) for x in names if x.lstrip("-").isdigit()}
    ids = [i for i in range(1, 3 * len(names) + 20) if i not in taken]
    rng.shuffle(ids)
    allint = rng.random() < 0.5
    ren = {x: ids[i] for i, x in enumerate(names) if allint or rng.random() < 0.5}

    def apply(x):
        x["entries"] = [[k, (ren.get(v, v) if (k == name_key and isinstance(v, str)) else v)] for k, v in x["entries"]]
        for k in x["kids"]:
            apply(k)
    apply(d)


def _nest_case_variants(rng, d, name_key):
    names = set()

    def collect(x):
        names.update(v for k, v in x["entries"] if k == name_key and isinstance(v, str))
        for k in x["kids"]:
            collect(k)
    collect(d)

    def walk(x):
        ks = x["kids"]
        if len(ks) >= 2 and rng.random() < 0.7:
            a, b = rng.sample(range(len(ks)), 2)
            an = [v for k, v in ks[a]["entries"] if k == name_key]
            if an and isinstance(an[0], str) and an[0].swapcase() != an[0] and an[0].swapcase() not in names:
                new = an[0].swapcase()
                names.add(new)
                ks[b]["entries"] = [[k, (new if k == name_key else v)] for k, v in ks[b]["entries"]]
        for k in ks:
            walk(k)
    walk(d)


def _share_template(rng, d, name_key):
    """make one sub-dictionary (preferably one with children) occur, as the same object, under a second parent"""
    nodes = []

    def walk(x, parent):
        nodes.append((x, parent))
        for k in x["kids"]:
            walk(k, x)
    walk(d, None)
    cands = [x for x, p in nodes if p is not None and x["ckind"] == "list" and x["kids"]] or \
            [x for x, p in nodes if p is not None]
    if not cands:
        return False
    tmpl = rng.choice(cands)
    inside = []

    def sub(x):
        inside.append(id(x))
        for k in x["kids"]:
            sub(k)
    sub(tmpl)
    tname = [v for k, v in tmpl["entries"] if k == name_key][0]
    hosts = [x for x, p in nodes if id(x) not in inside and x["ckind"] != "bad"
             and tmpl not in x["kids"]
             and all([v for k, v in c["entries"] if k == name_key] != [tname] for c in x["kids"])]
    if not hosts:
        return False
    host = rng.choice(hosts)
    tmpl["share"] = 1
    host["ckind"] = "list"
    host["kids"] = list(host["kids"])
    host["kids"].insert(rng.randint(0, len(host["kids"])), tmpl)
    return True


def gen_heap(rng):
    r = rng.random()
    n = rng.randint(1, 40) if r < 0.8 else rng.randint(1, 8)
    style = rng.choice(["random", "seq", "equal", "neg", "zeros", "floats", "mixed"])
    F = lambda x: ["f", repr(float(x))]                 # a float element (JSON keeps the case type-faithful)
    if style == "seq":
        l = list(range(rng.choice([0, 1]), n + 1))[:n]
    elif style == "equal":
        l = [rng.choice([0, 0, rng.randint(0, 9)])] * n
    elif style == "neg":
        l = [rng.randint(-50, 5) for _ in range(n)]
    elif style == "zeros":
        l = [rng.choice([0, 0, 0, 1, -1, 2]) for _ in range(n)]
    elif style == "floats":
        l = [F(rng.choice([0.0, 0.5, 2.5, -1.5, 3.0, 7.25, -0.5])) for _ in range(n)]
    elif style == "mixed":
        l = [rng.choice([0, F(0.0), 1, F(1.0), F(2.5), -3, F(-3.5), 4, ["d", "0"], ["d", "2.5"], ["ni", 0], ["ni", 5],
                         ["nf", "0.0"], ["nf", "2.5"], ["b", False], ["b", True]]) for _ in range(n)]
    else:
        l = [rng.randint(0, 99) for _ in range(n)]
    case = {"kind": "heap", "list": l}
    if rng.random() < 0.25:
        case["as_tuple"] = True
    if rng.random() < 0.45:
        # (no falsy-instance subclass here: BinaryNode's parent setter tests slots with `if not child`, see rule())
        case["node_type"] = rng.choice(["custom", "eq", "eq", "kw"])
        if rng.random() < 0.4:
            case["positional"] = True
    return f"heap/{style}/{'len>=16' if n >= 16 else 'len<16'}", case


def corpus(prop):
    A = lambda **k: k
    rel = lambda rows, cols=(), ad=False: {"kind": "rel", "allow_dup": ad, "rows": [list(r) for r in rows],
                                           "cols": list(cols), "entries": entries_for(rows)}
    out = [
        ("docstring", rel([["b", "a", {}], ["c", "a", {}], ["d", "b", {}], ["e", "b", {}], ["f", "c", {}],
                           ["g", "e", {}], ["h", "e", {}]])),
        ("docstring-df", rel([["a", None, A(age=90)], ["b", "a", A(age=65)], ["c", "a", A(age=60)],
                              ["d", "b", A(age=40)], ["e", "b", A(age=35)], ["f", "c", A(age=38)],
                              ["g", "e", A(age=10)], ["h", "e", A(age=6)]], ["age"])),
        ("empty", rel([])),
        ("single-root-row", rel([["a", None, {}]])),
        ("no-root", rel([["b", "a", {}], ["a", "b", {}]])),
        ("two-roots", rel([["b", "a", {}], ["d", "c", {}]])),
        ("null-row-plus-candidate", rel([["a", None, {}], ["b", "a", {}], ["d", "c", {}]])),
        ("ambiguous", rel([["b", "a", {}], ["c", "a", {}], ["x", "b", {}], ["x", "c", {}], ["y", "x", {}]])),
        ("ambiguous-last", rel([["b", "a", {}], ["c", "a", {}], ["x", "b", {}], ["y", "x", {}], ["x", "c", {}]])),
        ("dup-leaf", rel([["b", "a", {}], ["c", "a", {}], ["x", "b", {}], ["x", "c", {}]])),
        ("duplicate-row", rel([["b", "a", {}], ["b", "a", {}]])),
        ("unreachable-cycle", rel([["r", None, {}], ["b", "r", {}], ["p", "q", {}], ["q", "p", {}]])),
        ("self-loop", rel([["r", None, {}], ["a", "a", {}]])),
        ("reachable-cycle-allow-duplicates", rel([["a", "r", {}], ["b", "a", {}], ["a", "b", {}]], ad=True)),
        ("allow-duplicates", rel([["b", "a", {}], ["c", "a", {}], ["x", "b", {}], ["x", "c", {}], ["y", "x", {}]],
                                 ad=True)),
        ("empty-leaf-name", rel([["b", "a", {}], ["", "a", {}]])),
        ("empty-root-name", rel([["b", "", {}], ["c", "b", {}]])),
        ("unsorted-siblings", rel([["c", "a", A(age=1)], ["b", "a", A(age=2)], ["a2", "a", A(age=3)],
                                   ["z", "c", A(age=None)]], ["age"])),
        ("non-identifier-headers", dict(rel([["a", None, {"age (years)": 90, "class": "k"}],
                                             ["b", "a", {"age (years)": 65, "class": None}],
                                             ["c", "a", {"age (years)": None, "class": "m"}],
                                             ["d", "b", {"age (years)": 40, "class": "n"}]], ["age (years)", "class"]),
                                        ctypes={"age (years)": "int", "class": "str"})),
        ("ambiguous-repeated-index-labels", dict(rel([["b", "a", {}], ["c", "a", {}], ["x", "b", {}], ["y", "x", {}],
                                                      ["x", "c", {}], ["z", "c", {}]]), index=[0, 1, 2, 3, 0, 2])),
        ("F12-root-row-parent-nan", dict(rel([["a", None, {"age": 1}], ["b", "a", {"age": 2}]], ["age"]),
                                         nulls=["nan", "none"])),
        ("F12-root-row-parent-NA-default-dtype", dict(rel([["a", None, {}], ["b", "a", {}], ["c", "a", {}]]),
                                                      nulls=["na", "none", "none"], dtype="default")),
        ("F12-list-with-root-row", rel([["a", None, {}], ["b", "a", {}], ["c", "b", {}]])),
        ("F9-repeated-labels-on-siblings", dict(rel([["b", "a", {}], ["c", "a", {}], ["d", "b", {}], ["e", "b", {}]]),
                                                index=[0, 0, 1, 1])),
        ("F9-constant-label-with-root-row", dict(rel([["a", None, {"age": 1}], ["b", "a", {"age": 2}],
                                                      ["c", "a", {"age": None}]], ["age"]), index=[7, 7, 7])),
        ("string-index-labels", dict(rel([["b", "a", {}], ["c", "a", {}], ["d", "b", {}]]), index=["r2", "r0", "r1"])),
        ("heap-docstring", {"kind": "heap", "list": [1, 2, 3, 4, 5, 6, 7, 8, 9, 10]}),
        ("heap-empty", {"kind": "heap", "list": []}),
        ("heap-one", {"kind": "heap", "list": [7]}),
        ("nested-docstring", {"kind": "nest", "name_key": "name", "child_key": "children", "dict": {
            "entries": [["name", "a"], ["age", 90]], "ckind": "list", "cpos": 2, "kids": [
                {"entries": [["name", "b"], ["age", 65]], "ckind": "list", "cpos": 2, "kids": [
                    {"entries": [["name", "d"], ["age", 40]], "ckind": "missing", "cpos": 0, "kids": []},
                    {"entries": [["name", "e"], ["age", 35]], "ckind": "list", "cpos": 1, "kids": [
                        {"entries": [["name", "g"], ["age", 10]], "ckind": "missing", "cpos": 0, "kids": []}]}]}]}}),
        ("nested-shared-template", {"kind": "nest", "name_key": "name", "child_key": "children", "dict": (lambda unit: {
            "entries": [["name", "a"]], "ckind": "list", "cpos": 1, "kids": [
                {"entries": [["name", "b"]], "ckind": "list", "cpos": 1, "kids": [unit]},
                {"entries": [["name", "c"]], "ckind": "list", "cpos": 0, "kids": [
                    unit, {"entries": [["name", "f"]], "ckind": "missing", "cpos": 0, "kids": []}]}]})(
            {"entries": [["name", "x"], ["age", 3]], "ckind": "list", "cpos": 2, "share": 1, "kids": [
                {"entries": [["name", "y"]], "ckind": "missing", "cpos": 0, "kids": []},
                {"entries": [["name", "z"]], "ckind": "missing", "cpos": 0, "kids": []}]})}),
        ("nested-empty", {"kind": "nest", "name_key": "name", "child_key": "children",
                          "dict": {"entries": [], "ckind": "missing", "cpos": 0, "kids": []}}),
    ]
    return out


def generate(prop, rng, tier):
    n_rel, n_nest, n_heap, n_cyc, n_long = {"quick": (900, 500, 250, 6, 90), "thorough": (16000, 8000, 3000, 30, 1500),
                                            "search": (2500, 1500, 600, 6, 300)}[tier]
    for _ in range(n_rel):
        yield gen_rel(rng)
    for _ in range(n_long):
        yield gen_rel(rng, "long")
    for _ in range(n_cyc):
        yield gen_rel(rng, "cycle_reach")
    for _ in range(n_nest):
        yield gen_nest(rng)
    for _ in range(n_heap):
        yield gen_heap(rng)
    if tier == "thorough":
        # small scope: every relation list of <= 3 rows over the names a, b, c (parent possibly empty)
        names = ["a", "b", "c"]
        prs = [(c, p) for c in names for p in names + [None]]
        import itertools
        for k in (1, 2, 3):
            for combo in itertools.product(prs, repeat=k):
                rows = [[c, p, {}] for c, p in combo]
                yield "rel/exhaustive", {"kind": "rel", "allow_dup": False, "rows": rows, "cols": [],
                                         "entries": ["list", "polars"]}


# ---------------------------------------------------------------------------------------------
# shrinking, evidence


def shrink_candidates(prop, case):
    k = case["kind"]
    if k == "rel":
        rows = case["rows"]
        for i in range(len(rows)):
            c = dict(case)
            c["rows"] = rows[:i] + rows[i + 1:]
            if case.get("index") is not None:
                c["index"] = case["index"][:i] + case["index"][i + 1:]
            if case.get("nulls"):
                c["nulls"] = case["nulls"][:i] + case["nulls"][i + 1:]
            c["entries"] = [e for e in case["entries"] if e in entries_for(c["rows"])]
            if c["entries"]:
                yield c
        if case.get("index") is not None:
            c = dict(case)
            c["index"] = None
            yield c
        if case["cols"]:
            c = dict(case)
            c.pop("ctypes", None)
            c["cols"] = []
            c["rows"] = [[a, b, {}] for a, b, _ in rows]
            yield c
        for e in case["entries"]:
            if len(case["entries"]) > 1:
                c = dict(case)
                c["entries"] = [e]
                yield c
    elif k == "heap":
        l = case["list"]
        for n in range(len(l) - 1, 0, -1):
            yield dict(case, list=l[:n])
        yield {"kind": "heap", "list": list(range(len(l)))}
        if case.get("as_tuple") or case.get("node_type"):
            yield {"kind": "heap", "list": l}
    elif k == "nest":
        def variants(d):
            for i in range(len(d["kids"])):
                c = dict(d)
                c["kids"] = d["kids"][:i] + d["kids"][i + 1:]
                yield c
                if "share" in d["kids"][i]:
                    continue                      # the occurrences of a shared object must stay identical
                for v in variants(d["kids"][i]):
                    c = dict(d)
                    c["kids"] = d["kids"][:i] + [v] + d["kids"][i + 1:]
                    yield c
            if len(d["entries"]) > 1:
                c = dict(d)
                c["entries"] = [e for e in d["entries"] if e[0] == case["name_key"]]
                if len(c["entries"]) != len(d["entries"]):
                    yield c
        for v in variants(case["dict"]):
            c = dict(case)
            c["dict"] = v
            yield c


def size(case):
    k = case["kind"]
    if k == "rel":
        return 3 * len(case["rows"]) + len(case["cols"]) + len(case["entries"])
    if k == "heap":
        return len(case["list"])

    def cnt(d):
        return 1 + len(d["entries"]) + sum(cnt(x) for x in d["kids"])
    return cnt(case["dict"])


def nontrivial(prop, case, obs):
    k = case["kind"]
    if k == "rel":
        oks = [o for o in obs.values() if "ok" in o]
        if oks:
            return max(len(o["ok"]) for o in oks) >= 3
        return len(case["rows"]) >= 2
    if k == "heap":
        return len(case["list"]) >= 3
    f = obs["first"]
    return ("ok" in f and len(f["ok"]) >= 3) or "err" in f


def rule(prop):
    return ("relation rows of random trees (2-10 nodes; shapes wide/deep/mixed/path/star; names distinct / repeated at "
            "leaves / affix-related / special characters; 0-2 attribute columns with nulls; rows shuffled, reversed or in "
            "pre-order; with and without an explicit root row; plus a stratum of long lists: 17-40 shuffled rows, 2-5 "
            "parents with >= 4 children, 1-2 character names) through list_to_tree_by_relation, "
            "dataframe_to_tree_by_relation (object columns) and polars_to_tree_by_relation with the same rows; a malformed "
            "stream (no root, two roots, root row + second candidate, repeated non-leaf name incl. as last row, duplicate "
            "rows, unreachable and reachable cycles, self loops, empty input, allow_duplicates=True); random rows over "
            "<= 4 names; nested dictionaries with default / non-default keys, missing / empty / ill-typed children, missing "
            "names, repeated sibling names, one sub-dictionary OBJECT nested under two parents; every nested dictionary is built "
            "twice from the same object and compared with a deep copy taken before (input unchanged); number lists of length 1-40 and the empty list.  "
            "About 40 % of the cases with attribute columns use headers that are no Python identifiers (blank, "
            "parentheses, keywords, leading underscore / digit); about 40 % of the pandas frames carry non-default row "
            "labels (concatenated pieces = repeated labels incl. on rows with the same parent or child, shuffled, strings, "
            "one constant label; F9).  "
            "Argument forms and options varied on the same rows: relations as list of tuples / list of lists / tuple of "
            "tuples; child_col / parent_col named explicitly with the columns in any order, or inferred by position, under "
            "several column names (incl. child column called 'parent' or 'p'); attribute_cols as a proper subset (the other "
            "columns must be ignored); allow_duplicates omitted / False / True (also on valid lists); node_type omitted or a "
            "custom subclass; pandas frames with dtype=object or pandas' own inference; attribute values 0, '', False, None, "
            "bool columns; heap lists of ints, floats, 0 / 0.0, negative and repeated values as list or tuple (elements are "
            "compared through type-and-value codes, node.name = str(x) and node.val = int(x) are checked in the runner); "
            "nested dictionaries with falsy attribute values, keys passed explicitly or by default.  Checked by the runner "
            "on every call (a failure is reported as a disagreement with its text): every result node has exactly the "
            "requested class, the returned node is the root, child.parent is the parent, a second call with the same "
            "argument objects gives the same outcome, and the caller's list / DataFrame / polars frame / heap list is "
            "unchanged (values, column order, labels, dtypes).  "
            "Attribute VALUES: ints, bools, floats (a Float64 / float column incl. 0.0), strings that look like a missing "
            "value or a number ('nan', ' NaN ', 'inf', 'None', 'null', '<NA>', '0.0', '1e3', '') which must stay strings, and "
            "- pandas object columns and nested dictionaries only - lists, numpy scalars, Decimal (incl. Decimal('NaN'), kept), "
            "0 / False / [] ; in relation rows None, float NaN, numpy NaN and pd.NA mean 'no value' and are left off the node "
            "by design, in a nested dictionary they are values.  Attribute NAMES also from depth / n / names / name_en / path "
            "/ shift / x / y / root / val / left.  node_type: omitted, a plain subclass, a value-equality subclass (__eq__ / "
            "__hash__ by lower-cased name, with siblings renamed to differ only in letter case; for heap lists equality by "
            "val with repeated values), subclasses whose instances are falsy (__len__ = number of children; __bool__ = False; "
            "not for BinaryNode, see partial clauses), a subclass with an extra constructor argument and a property - for "
            "every entry point.  "
            "NAMES: str, int ids, or a mix (never an int next to its own decimal string, never 0) for the list, pandas and "
            "nested-dict entry points, all-int for polars; names are compared by value and type (an int id is a tagged "
            "string for the model).  OPTION PRESENCE: child_col x parent_col in all four combinations (with column orders in "
            "which the omitted one sits at its default position and the named one does not), given by keyword or "
            "positionally ('' for the omitted one); attribute_cols / allow_duplicates / node_type / name_key / child_key "
            "given or omitted independently, positionally or by keyword.  "
            "Empty parents are spelled None, NaN or pd.NA (per row) for the list and pandas entry points, in object and "
            "inferred-dtype frames (F12).  "
            "non-trivial = accepted tree with >= 3 nodes, or a refused input with >= 2 rows (relations); >= 3 nodes or "
            "refused (nested); >= 3 elements (heap); distinct by canonical JSON hash")


def sample(prop, case, obs):
    return {"case": case, "observed": obs}


def partial_clauses(prop):
    return [
        "pandas / polars / list entry points are one model function on a row list; the frame glue is covered by the "
        "correspondence only",
        "deliberately not compared: the exception class and message of a refusal (only accepted / refused; the property "
        "says 'refused'); the order and int-vs-integral-float representation of node attributes (attributes are compared as "
        "a key -> value map, 2.0 folds to 2); anything about nodes beyond name, class, links and public attributes (sep, "
        "private fields)",
        "not generated because the unchanged bigtree is not well-defined there (reported): BinaryNode subclasses whose "
        "instances can be falsy (__len__ = number of children, or __bool__ by value) with list_to_binarytree - "
        "BinaryNode's parent setter looks for a free slot with `if not child`, so a falsy left child is overwritten",
        "not generated: the int id 0 (Node's constructor tests `if not self.node_name` and refuses a node named 0 with "
        "'Node must have a `name` attribute' - reported); float / bool / other non-str non-int names",
        "deliberately not generated: polars frames with inferred instead of declared "
        "column types; generators as relation lists (the function needs len()); attribute columns called "
        "name / parent / children / sep (they would feed Node's constructor); reachable cycles only 6 cases per quick "
        "run (RecursionError takes ~0.5 s each); BinaryNode subclasses other than a plain subclass; heap lists holding "
        "non-numbers",
    ]


def trusted_base(prop):
    return COMMON_TB + [
        "pandas / polars frame operations (boolean-mask filter, drop_duplicates / unique, isin, value_counts, to_dict) "
        "are modelled as list operations on rows, not verified",
        "float division in int((idx + 1) / 2) is exact for list lengths below 2^53 (modelled on nat)",
    ]
