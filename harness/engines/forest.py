"""Engine `forest`: operation histories on BaseNode / Node objects (C01, C02, C03, C20)."""
import copy
import os
import sys

from ..core import cbool, clist, cnat, copt, cpair, cstr
from ._base import *  # noqa
from ._base import exn_code, COMMON_TB

CASES_PER_FILE = 200
SERVES = ["C01", "C02", "C03", "C20"]
COQ_TARGETS = ["theories/Corr/ForestCorr.vo", "theories/Corr/ForestPathCorr.vo"]


def coq_header(prop):
    return "From BT Require Import Base.Prelude Heap.Forest Corr.ForestCorr Corr.ForestPathCorr."


def coq_case_type(prop):
    return {"C03": "c3case", "C20": "c20case"}.get(prop, "fcase")


def coq_check(prop):
    return {"C01": "check_C01", "C02": "check_C02", "C03": "check_C03", "C20": "check_C20_forest"}[prop]


# ---------------------------------------------------------------------------------------------
# implementation side


class HookFault(Exception):
    pass


_CLASSES = {}


def _classes():
    if _CLASSES:
        return _CLASSES
    from bigtree.node.basenode import BaseNode
    from bigtree.node.node import Node

    class Faults:
        queue = []      # one entry per setter call: None | "pre" | "post"
        pending = False
        nodes = []      # every hook READS the public state of all nodes (a value cached on read
                        # and not invalidated by a rollback would then be observed later)

        @classmethod
        def touch(cls):
            for n in cls.nodes:
                if n is not None:
                    n.parent, n.children, n.is_root, n.is_leaf
                    # derived values too (depth, root, route, subtree): a cache primed here and not
                    # invalidated by a later re-parenting of an ancestor shows up in the final observation
                    try:
                        n.depth, n.root, n.max_depth, n.siblings, list(n.ancestors), list(n.descendants), list(n.leaves)
                        if isinstance(n, Node):
                            n.sep, n.path_name
                    except RecursionError:
                        # a cycle is in place (an accepted loop): reading must not turn it into a hook failure
                        # that the setter rolls back -- the links are what gets observed
                        pass

        @classmethod
        def pre(cls):
            cls.touch()
            cur = cls.queue.pop(0) if cls.queue else None
            cls.pending = cur == "post"
            if cur == "pre":
                raise HookFault("pre")

        @classmethod
        def post(cls):
            cls.touch()
            if cls.pending:
                cls.pending = False
                raise HookFault("post")

    class FBase(BaseNode):
        def _BaseNode__pre_assign_parent(self, new_parent):
            Faults.pre()

        def _BaseNode__post_assign_parent(self, new_parent):
            Faults.post()

        def _BaseNode__pre_assign_children(self, new_children):
            Faults.pre()

        def _BaseNode__post_assign_children(self, new_children):
            Faults.post()

    class FNode(Node):
        def _Node__pre_assign_parent(self, new_parent):
            Faults.pre()

        def _Node__post_assign_parent(self, new_parent):
            Faults.post()

        def _Node__pre_assign_children(self, new_children):
            Faults.pre()

        def _Node__post_assign_children(self, new_children):
            Faults.post()

    class FNodeEq(FNode):
        """a user subclass with value semantics: nodes compare (and hash) by name.  The library's own
        links and checks work on identity, so nothing may depend on == between distinct nodes."""
        def __eq__(self, other):
            return isinstance(other, Node) and other.node_name == self.node_name

        def __hash__(self):
            return hash(self.node_name)

    _CLASSES.update(Faults=Faults, FBase=FBase, FNode=FNode, FNodeEq=FNodeEq)
    return _CLASSES


def _ncls(cl, case):
    return cl["FNodeEq"] if case.get("eq") else cl["FNode"]


class Junk:
    """a Python object that is not a node"""


_JUNK = {"obj": Junk, "zero": lambda: 0, "empty": lambda: "", "false": lambda: False, "tuple": lambda: ()}


def _arg(nodes, a):
    if a[0] == "N":
        return nodes[a[1]]
    if a[0] == "None":
        return None
    return _JUNK[a[1] if len(a) > 1 else "obj"]()     # a non-node object, truthy or falsy


def _container(kind, items):
    if kind == "list":
        return list(items)
    if kind == "tuple":
        return tuple(items)
    if kind == "set":
        return set(items)
    return {i: x for i, x in enumerate(items)}.values()   # a dict view: iterable but no list/tuple/set


def _fq(f):
    return {"none": None, "pre": "pre", "post": "post"}[f]


def _links(nodes):
    idx = {id(n): i for i, n in enumerate(nodes) if n is not None}
    out = []
    for n in nodes:
        if n is None:                 # not constructed yet: a fresh, unlinked node in the model
            out.append([None, []])
            continue
        p = n.parent
        out.append([None if p is None else idx[id(p)], [idx[id(c)] for c in n.children]])
    return out


def apply_op(cl, nodes, op):
    F = cl["Faults"]
    F.queue = []
    F.pending = False
    k = op[0]
    if k == "SetParent":
        F.queue = [_fq(op[3])]
        nodes[op[1]].parent = _arg(nodes, op[2])
    elif k == "SetChildren":
        F.queue = [_fq(op[4])]
        cont = _container(op[2], [_arg(nodes, a) for a in op[3]])
        try:
            nodes[op[1]].children = cont
        finally:
            # the caller's container must not be aliased by the node: emptying it afterwards
            # may not change anything (a missing defensive copy would show up as lost children)
            if isinstance(cont, list):
                cont.clear()
    elif k == "DelChildren":
        del nodes[op[1]].children
    elif k == "Append":
        F.queue = [_fq(op[3])]
        nodes[op[1]].append(nodes[op[2]])
    elif k == "RShift":
        F.queue = [_fq(op[3])]
        nodes[op[1]] >> nodes[op[2]]
    elif k == "LShift":
        F.queue = [_fq(op[3])]
        nodes[op[1]] << nodes[op[2]]
    elif k == "Extend":
        F.queue = [_fq(f) for f in op[3]]
        items = [nodes[c] for c in op[2]]
        if len(op) > 4 and nodes[op[4]] is not None and [id(c) for c in nodes[op[4]].children] == [id(c) for c in items]:
            items = nodes[op[4]]        # the node itself as the iterable of its children
        nodes[op[1]].extend(items)
    elif k == "DelItem":
        F.queue = [_fq(op[3])]
        del nodes[op[1]][op[2]]
    elif k == "Sort":
        keys = op[2]
        pos = {id(n): i for i, n in enumerate(nodes)}
        nodes[op[1]].sort(key=lambda nd: keys[pos[id(nd)]] if pos[id(nd)] < len(keys) else 0, reverse=op[3])
    elif k == "SetSep":
        nodes[op[1]].sep = op[2]
    elif k == "Construct":
        # Node(name, parent=..., children=...) creating node op[1] (not created before)
        i = op[1]
        assert nodes[i] is None
        F.queue = [_fq(op[5]), _fq(op[6])]
        kwargs = {"parent": _arg(nodes, op[2])}
        if op[3] != "absent":
            kwargs["children"] = _container(op[3], [_arg(nodes, a) for a in op[4]])
        case = cl["case"]
        try:
            if case["cls"] == "Node":
                nodes[i] = _ncls(cl, case)(case["names"][i], sep=case["seps"][i], **kwargs)
            else:
                nodes[i] = cl["FBase"](**kwargs)
        finally:
            if nodes[i] is None:
                # the constructor raised: the half-built object may already be linked somewhere
                known = {id(n) for n in nodes if n is not None}
                for n in nodes:
                    if n is None:
                        continue
                    if n.parent is not None and id(n.parent) not in known:
                        nodes[i] = n.parent
                        break
                    for c in n.children:
                        if id(c) not in known:
                            nodes[i] = c
                            break
                    if nodes[i] is not None:
                        break
                if nodes[i] is None:       # nothing linked: the object is gone, node i is still fresh
                    F.queue = []
                    F.pending = False
                    nodes[i] = _ncls(cl, case)(case["names"][i], sep=case["seps"][i]) if case["cls"] == "Node" else cl["FBase"]()
            F.nodes = nodes
    else:
        raise ValueError(k)


def _closes_loop(nodes, op):
    """would this assignment, taken at face value on the links as they are now, make a node its own ancestor?"""
    def up(x):
        seen, out = set(), []
        while x is not None and id(x) not in seen:
            seen.add(id(x)); out.append(x); x = x.parent
        return out

    def node(a):
        return nodes[a[1]] if (isinstance(a, list) and a and a[0] == "N") else None
    k = op[0]
    pairs = []          # (child, parent) links the op asks for
    if k == "SetParent":
        pairs = [(nodes[op[1]], node(op[2]))]
    elif k == "SetChildren":
        pairs = [(node(a), nodes[op[1]]) for a in op[3]]
    elif k in ("Append", "RShift"):
        pairs = [(nodes[op[2]], nodes[op[1]])]
    elif k == "LShift":
        pairs = [(nodes[op[1]], nodes[op[2]])]
    elif k == "Extend":
        pairs = [(nodes[c], nodes[op[1]]) for c in op[2]]
    elif k == "Construct":
        pa = node(op[2])
        if pa is not None and op[3] != "absent":
            chain = up(pa)
            return any(node(a) is not None and any(node(a) is y for y in chain) for a in op[4])
        return False
    for c, p in pairs:
        if c is None or p is None:
            continue
        if any(c is y for y in up(p)):
            return True
    return False


def run_history(case, with_final=True):
    """Run the history on fresh FNode/FBase objects; used in-process and in the no-assertion child."""
    cl = _classes()
    cl["Faults"].queue = []
    cl["Faults"].pending = False
    lazy = {op[1] for op in case["ops"] if op[0] == "Construct"}
    if case["cls"] == "Node":
        nodes = [None if i in lazy else _ncls(cl, case)(case["names"][i], sep=case["seps"][i]) for i in range(case["n"])]
    else:
        nodes = [None if i in lazy else cl["FBase"]() for i in range(case["n"])]
    cl["case"] = case
    cl["Faults"].nodes = nodes
    trace = []
    for op in case["ops"]:
        code = 0
        if not case.get("assert", True) and _closes_loop(nodes, op):
            # with the checks off nothing would refuse this assignment and the links would form a cycle: outside
            # the modelled domain (the model answers Unmodelled for it and the case is skipped) -- not executed,
            # because every later read would walk the cycle forever
            trace.append([_links(nodes), 14])
            continue
        try:
            apply_op(cl, nodes, op)
        except HookFault:
            code = 12
        except Exception as e:
            code = exn_code(e)
        cl["Faults"].queue = []
        cl["Faults"].pending = False
        trace.append([_links(nodes), code])
    for i in range(len(nodes)):
        if nodes[i] is None:
            nodes[i] = _ncls(cl, case)(case["names"][i], sep=case["seps"][i]) if case["cls"] == "Node" else cl["FBase"]()
    final = []
    if case["cls"] == "Node" and with_final:
        for n in nodes:
            try:
                final.append([n.sep, n.path_name, n.depth])
            except RecursionError:
                # only possible with the checks off after a loop-closing assignment: outside the modelled
                # domain (the model answers Unmodelled and the case is skipped), nothing to read here
                final.append(["", "", 0])
    obs = {"trace": trace, "final": final}
    if "lookups" in case:
        # every way of looking an absolute path name up: find_full_path, and find_relative_path(s), which hand a
        # path with a leading separator to find_full_path (search.py find_relative_paths) -- same model function
        from bigtree.tree.search import find_full_path, find_relative_path, find_relative_paths
        idx = {id(n): i for i, n in enumerate(nodes)}

        def _rels(st, pth):
            r = find_relative_paths(st, pth)
            if len(r) != 1:
                raise ValueError("not exactly one result")
            return r[0]
        look = []
        for fn in (find_full_path, find_relative_path, _rels):
            for (start, target) in case["lookups"]:
                try:
                    # the relative-path functions only for the property's situation (start and target in one
                    # tree: the path is then absolute for the start node's separator too)
                    f = fn if nodes[start].root is nodes[target].root else find_full_path
                    r = f(nodes[start], nodes[target].path_name)
                    look.append(["ret", None if r is None else idx[id(r)]])
                except Exception:
                    look.append(["raise"])
        obs["lookups"] = look
    if case.get("battery"):
        obs["battery"] = _battery(case, nodes)
    return obs


def _battery(case, nodes):
    """results of a set of library functions on every tree of the final forest (C20: must not
    depend on the assertion switch)"""
    import io
    import contextlib
    out = []
    if case["cls"] != "Node":
        for n in nodes:
            if n.parent is None:
                out.append([len(list(n.descendants)), n.max_depth, n.diameter, [len(list(x.children)) for x in [n] + list(n.descendants)]])
        return out
    from bigtree.tree import export, search, helper
    from bigtree.utils import iterators
    for n in nodes:
        if n.parent is not None:
            continue
        item = {}
        try:
            item["dict"] = sorted(export.tree_to_dict(n).keys())
            item["nested"] = export.tree_to_nested_dict(n)
            buf = io.StringIO()
            with contextlib.redirect_stdout(buf):
                export.print_tree(n)
            item["print"] = buf.getvalue()
            item["pre"] = [x.path_name for x in iterators.preorder_iter(n)]
            item["post"] = [x.path_name for x in iterators.postorder_iter(n)]
            item["level"] = [[x.path_name for x in g] for g in iterators.levelordergroup_iter(n)]
            item["zigzag"] = [x.path_name for x in iterators.zigzag_iter(n)]
            item["names"] = [x.path_name for x in search.findall(n, lambda z: len(str(z.node_name)) == 1)]
            item["newick"] = export.tree_to_newick(n)
            item["clone"] = [x.path_name for x in iterators.preorder_iter(helper.clone_tree(n, type(n)))]
            item["copy"] = [x.path_name for x in iterators.preorder_iter(n.copy())]
            item["depth"] = [n.max_depth, n.diameter]
        except Exception as e:
            item["error"] = type(e).__name__
        out.append(item)
    return out


def run_impl(prop, case):
    if prop != "C20":
        if not case.get("assert", True):
            # the whole history in the interpreter started with BIGTREE_CONF_ASSERTIONS="" (no type/loop checks;
            # everything else -- hooks, rollbacks, Node's duplicate-name refusal -- must work exactly the same)
            from .. import noassert
            assert noassert.call("harness.engines.forest", "__assertions__") is False
            return noassert.call("harness.engines.forest", "run_history", case)
        return run_history(case)
    # C20: checks on (in-process), then off (child interpreter started with BIGTREE_CONF_ASSERTIONS="")
    from bigtree import globals as bt_globals
    assert bt_globals.ASSERTIONS, "the in-process interpreter must run with the checks enabled"
    on = run_history(case, with_final=False)
    # keep only the prefix that is accepted by the type/loop checks (the property speaks about
    # sequences that are valid with the checks enabled)
    k = len(case["ops"])
    for i, (_, code) in enumerate(on["trace"]):
        if code in (1, 6):
            k = i
            break
    eff = dict(case)
    eff["ops"] = case["ops"][:k]
    eff["battery"] = True
    from .. import noassert
    assert noassert.call("harness.engines.forest", "__assertions__") is False
    on = run_history(eff, with_final=False)
    off = noassert.call("harness.engines.forest", "run_history", eff, False)
    return {"ops": eff["ops"], "trace": on["trace"], "final": [], "off": off["trace"],
            "lib_equal": on["battery"] == off["battery"], "battery_items": len(on["battery"])}


# ---------------------------------------------------------------------------------------------
# Coq literals


def _carg(a):
    return {"N": lambda: f"ANode {a[1]}", "None": lambda: "ANone", "Junk": lambda: "AJunk"}[a[0]]()


def _ccop(op):
    if op[0] == "Construct":
        cont = "CList" if op[3] == "absent" else _CT[op[3]]
        args = [] if op[3] == "absent" else op[4]
        return (f"Construct {op[1]} ({_carg(op[2])}) {cont} {clist(_carg(a) for a in args)} "
                f"{_FT[op[5]]} {_FT[op[6]]}")
    return "P (" + _cop(op) + ")"


_FT = {"none": "NoFault", "pre": "PreFail", "post": "PostFail"}
_CT = {"list": "CList", "tuple": "CTuple", "set": "CSet", "other": "COther"}


def _cop(op):
    k = op[0]
    if k == "SetParent":
        return f"SetParent {op[1]} ({_carg(op[2])}) {_FT[op[3]]}"
    if k == "SetChildren":
        return f"SetChildren {op[1]} {_CT[op[2]]} {clist(_carg(a) for a in op[3])} {_FT[op[4]]}"
    if k == "DelChildren":
        return f"DelChildren {op[1]}"
    if k in ("Append", "RShift", "LShift"):
        return f"{k} {op[1]} {op[2]} {_FT[op[3]]}"
    if k == "Extend":
        return f"Extend {op[1]} {clist(str(c) for c in op[2])} {clist(_FT[f] for f in op[3])}"
    if k == "DelItem":
        return f"DelItem {op[1]} {cstr(str(op[2]))} {_FT[op[3]]}"
    if k == "Sort":
        return f"Sort {op[1]} {clist('None' if x is None else f'(Some {x})' for x in op[2])} {cbool(op[3])}"
    if k == "SetSep":
        return f"SetSep {op[1]} {cstr(op[2])}"
    raise ValueError(k)


def _clinks(l):
    return clist(cpair(copt(p, str), clist(str(int(c)) for c in cs)) for p, cs in l)


def emit(prop, case, obs):
    n = case["n"]
    for l, code in obs["trace"]:
        assert len(l) == n
    parts = [
        cbool(case["cls"] == "Node"), cbool(case["assert"]), str(n),
        clist(cstr(str(s)) for s in case["names"]), clist(cstr(s) for s in case["seps"]),
        clist(_ccop(o) for o in obs.get("ops", case["ops"])),
        clist(cpair(_clinks(l), str(code)) for l, code in obs["trace"]),
        clist(f"({cstr(a)}, {cstr(b)}, {int(d)})" for a, b, d in obs["final"]),
    ]
    fc = "FC " + " ".join(f"({p})" for p in parts)
    if prop == "C03":
        def lk(r):
            return "None" if r[0] == "raise" else f"(Some {copt(r[1], str)})"
        looks = clist(f"({s}, {t}, {lk(r)})" for (s, t), r in zip(list(case.get("lookups", [])) * 3, obs["lookups"]))
        return f"C3 ({fc}) ({looks})"
    if prop == "C20":
        off = clist(cpair(_clinks(l), str(code)) for l, code in obs["off"])
        return f"C20 ({fc}) ({off}) {cbool(obs['lib_equal'])}"
    return fc


# ---------------------------------------------------------------------------------------------
# generation

NAME_POOLS = {
    "distinct": ["a", "b", "c", "d", "e", "f", "g", "h", "i", "j"],
    "repeated": ["a", "b", "a", "c", "b", "a", "c", "b", "a", "c"],
    "affix": ["a", "xa", "ab", "b", "bc", "a", "abc", "b", "c", "xa"],
    "special": ["a.b", "(", "+", "a b", "a'", "0", "a1", "a", "10", "-"],
    "dots": ["*", ".", "..", "a", "*", "b", "..", ".", "c", "*"],     # names that relative-path syntax gives a meaning
    # names that are not str (the suite has test_path_name_int): ints next to letters; never an int next to its own
    # decimal string, so "equal names" and "equal rendered names" coincide and the model's str names stay faithful
    "numeric": [1, 2, "a", 10, 7, "b", 2, 1, 12, "a"],
}
SEPS = ["/", "\\", "-", ".", "|"]
MULTI_SEPS = ["->", "::", "=>", "//", "-|-"]   # separators of more than one character (C03)


class Shadow:
    """rough shadow of the link structure, used only to bias generation towards interesting ops"""

    def __init__(self, n):
        self.par = [None] * n
        self.kids = [[] for _ in range(n)]

    def anc(self, x):
        out = []
        while self.par[x] is not None:
            x = self.par[x]
            out.append(x)
        return out

    def desc(self, x):
        out = []
        st = list(self.kids[x])
        while st:
            y = st.pop()
            out.append(y)
            st.extend(self.kids[y])
        return out

    def set_parent(self, c, p):
        if p is not None and (p == c or c in self.anc(p)):
            return False
        if self.par[c] is not None:
            self.kids[self.par[c]].remove(c)
        self.par[c] = p
        if p is not None:
            self.kids[p].append(c)
        return True

    def set_children(self, p, cs):
        if len(set(cs)) != len(cs) or p in cs or any(c in self.anc(p) for c in cs):
            return False
        for c in list(self.kids[p]):
            self.par[c] = None
        self.kids[p] = []
        for c in cs:
            if self.par[c] is not None:
                self.kids[self.par[c]].remove(c)
            self.par[c] = p
        self.kids[p] = list(cs)
        return True


def gen_case(rng, prop, cls=None, fault_rate=0.1, invalid_rate=0.15, nmax=8, maxops=18, assertions=True):
    n = rng.randint(3, nmax)
    cls = cls or rng.choice(["Node", "Node", "BaseNode"])
    pool_name = rng.choice([k for k in NAME_POOLS if not (prop == "C03" and k == "numeric")])
    # (C03 keeps to str names: a path string can only be looked up against str names -- Node(1) is not found
    #  under "/r/1" on the unchanged tree; names are annotated str)
    pool = NAME_POOLS[pool_name]
    off = rng.randrange(len(pool))
    names = [pool[(off + i) % len(pool)] for i in range(n)]
    sep_pool = SEPS
    if prop == "C03":   # the property quantifies over separators that do not occur inside a name
        sep_pool = [c for c in SEPS if not any(c in str(nm) for nm in names)]
        if rng.random() < 0.35:
            # multi-character separators: mostly inside the theorems' guard (no character of the separator in
            # any name: C03_lookup_roundtrip_multi_partial), sometimes only substring-free (K3 territory)
            free = [sp for sp in MULTI_SEPS if not any(ch in str(nm) for ch in sp for nm in names)]
            sub = [sp for sp in MULTI_SEPS if not any(sp in str(nm) for nm in names)]
            multi = free if (free and rng.random() < 0.85) else sub
            if multi:
                sep_pool = multi
    seps = [rng.choice(sep_pool)] * n if rng.random() < 0.7 else [rng.choice(sep_pool) for _ in range(n)]
    sh = Shadow(n)
    ops = []
    nlazy = rng.choice([0, 0, 1, 1, 2]) if (n >= 4 and prop != "C20") else 0
    live = n - nlazy      # nodes n-nlazy .. n-1 come into being through a constructor call

    def fault():
        r = rng.random()
        return "post" if r < fault_rate * 0.6 else "pre" if r < fault_rate else "none"

    # optional warm-up: a wide donor so that children-stealing sees >= 4 siblings
    if rng.random() < 0.5 and live >= 5:
        p = rng.randrange(live)
        cs = [x for x in range(live) if x != p]
        rng.shuffle(cs)
        cs = cs[: rng.randint(3, len(cs))]
        ops.append(["SetChildren", p, "list", [["N", c] for c in cs], "none"])
        if cls == "BaseNode" or len({names[c] for c in cs}) == len(cs):
            sh.set_children(p, cs)
    nops = rng.randint(3, maxops)
    while len(ops) < nops or live < n:
        if live < n and (len(ops) >= nops or rng.random() < 0.25):
            # constructor call creating node `live` with parent= and children= arguments
            i = live
            invalid = assertions and rng.random() < invalid_rate
            pcands = list(range(live))
            pa = ["None"] if (not pcands or rng.random() < 0.2) else ["N", rng.choice(pcands)]
            if invalid and rng.random() < 0.3:
                pa = ["Junk", rng.choice(["obj", "zero", "empty"])]
            bad = set()
            if pa[0] == "N":
                bad = set(sh.anc(pa[1])) | {pa[1]}
            ccands = [x for x in range(live) if invalid or x not in bad]
            rng.shuffle(ccands)
            cs = ccands[: rng.randint(0, min(3, len(ccands)))]
            cont = rng.choice(["list", "list", "tuple", "absent"])
            if cont == "absent":
                cs = []
            cargs = [["N", c] for c in cs]
            if invalid and cont != "absent" and rng.random() < 0.3:
                cargs.insert(rng.randint(0, len(cargs)), rng.choice([["Junk", "zero"], ["None"], ["N", cs[0]] if cs else ["Junk", "obj"]]))
            ftp, ftc = fault(), fault()
            ops.append(["Construct", i, pa, cont, cargs, ftp, ftc])
            live += 1
            if ftp == "none" and pa[0] != "Junk":
                ok = True
                if pa[0] == "N":
                    if cls == "Node" and any(names[k] == names[i] for k in sh.kids[pa[1]]):
                        ok = False
                    else:
                        sh.set_parent(i, pa[1])
                if ok and ftc == "none" and all(a[0] == "N" for a in cargs):
                    ids = [a[1] for a in cargs]
                    if cls == "BaseNode" or len({names[c] for c in ids}) == len(ids):
                        sh.set_children(i, ids)
            continue
        r = rng.random()
        invalid = assertions and rng.random() < invalid_rate
        if r < 0.30:
            c = rng.randrange(live)
            if invalid:
                ch = rng.random()
                if ch < 0.3:
                    a = ["Junk", rng.choice(["obj", "obj", "zero", "empty", "false", "tuple"])]
                elif ch < 0.5:
                    a = ["N", c]
                else:
                    d = sh.desc(c)
                    a = ["N", rng.choice(d)] if d else ["N", c]
            else:
                cands = [p for p in range(live) if p != c and c not in sh.anc(p)]
                a = ["None"] if (not cands or rng.random() < 0.15) else ["N", rng.choice(cands)]
            ft = fault()
            ops.append(["SetParent", c, a, ft])
            if ft == "none" and a[0] != "Junk":
                sh.set_parent(c, a[1] if a[0] == "N" else None)
        elif r < 0.58:
            p = rng.randrange(live)
            bad = set(sh.anc(p)) | {p}
            cands = [x for x in range(live) if x not in bad]
            rng.shuffle(cands)
            k = rng.randint(0, len(cands))
            cs = cands[:k]
            # bias: steal several children of one donor in non-ascending order
            if rng.random() < 0.4:
                donors = [q for q in range(live) if q != p and len(sh.kids[q]) >= 2 and q not in bad]
                if donors:
                    q = rng.choice(donors)
                    st = [x for x in sh.kids[q] if x not in bad]
                    rng.shuffle(st)
                    cs = st[: rng.randint(2, len(st))] + [x for x in cs if x not in st][: rng.randint(0, 2)]
            args = [["N", c] for c in cs]
            cont = rng.choice(["list", "list", "tuple"])
            if len(args) <= 1 and rng.random() < 0.2:
                cont = "set"
            if invalid:
                if cont == "set":
                    cont = "list"
                ch = rng.random()
                if ch < 0.2:
                    args.insert(rng.randint(0, len(args)), ["Junk", rng.choice(["obj", "zero", "empty", "false", "tuple"])])
                elif ch < 0.35:
                    args.insert(rng.randint(0, len(args)), ["None"])
                elif ch < 0.55:
                    args.insert(rng.randint(0, len(args)), ["N", p])
                elif ch < 0.75 and sh.anc(p):
                    args.insert(rng.randint(0, len(args)), ["N", rng.choice(sh.anc(p))])
                elif ch < 0.9 and args:
                    args.insert(rng.randint(0, len(args)), rng.choice(args))
                else:
                    cont = "other"
            ft = fault()
            ops.append(["SetChildren", p, cont, args, ft])
            if ft == "none" and cont != "other" and all(a[0] == "N" for a in args):
                ids = [a[1] for a in args]
                if cls == "BaseNode" or len({names[c] for c in ids}) == len(ids):
                    sh.set_children(p, ids)
        elif r < 0.64:
            p = rng.randrange(live)
            ops.append(["DelChildren", p])
            for c in list(sh.kids[p]):
                sh.par[c] = None
            sh.kids[p] = []
        elif r < 0.76:
            kind = rng.choice(["Append", "RShift", "LShift"])
            c = rng.randrange(live)
            cands = [p for p in range(live) if (invalid or (p != c and c not in sh.anc(p)))]
            if not cands:
                continue
            p = rng.choice(cands)
            ft = fault()
            ops.append([kind, p, c, ft] if kind != "LShift" else [kind, c, p, ft])
            if ft == "none":
                sh.set_parent(c, p)
        elif r < 0.84:
            p = rng.randrange(live)
            bad = set(sh.anc(p)) | {p}
            cands = [x for x in range(live) if invalid or x not in bad]
            rng.shuffle(cands)
            cs = cands[: rng.randint(0, min(4, len(cands)))]
            via = None
            donors = [q for q in range(live) if q != p and len(sh.kids[q]) >= 2 and (invalid or not (set(sh.kids[q]) & bad))]
            if donors and rng.random() < 0.35:
                # p.extend(q): the donor NODE itself is the iterable (BaseNode.__iter__ yields a snapshot of its
                # children); every child of q moves to p while q's list is being emptied
                via = rng.choice(donors)
                cs = list(sh.kids[via])
            fts = [fault() for _ in cs]
            ops.append(["Extend", p, cs, fts] + ([via] if via is not None else []))
            for c, f in zip(cs, fts):
                if f != "none" or not sh.set_parent(c, p):
                    break
        elif r < 0.90 and cls == "Node":
            p = rng.randrange(live)
            nm = names[rng.choice(sh.kids[p])] if sh.kids[p] and rng.random() < 0.8 else rng.choice(pool)
            ft = fault()
            ops.append(["DelItem", p, nm, ft])
            if ft == "none":
                hit = [c for c in sh.kids[p] if names[c] == nm]
                if len(hit) == 1:
                    sh.set_parent(hit[0], None)
        elif r < 0.97:
            p = rng.randrange(live)
            wide = [q for q in range(live) if len(sh.kids[q]) >= 3]
            if wide and rng.random() < 0.6:
                p = rng.choice(wide)
            keys = [rng.randint(0, 3) for _ in range(n)]
            if rng.random() < 0.3:
                # a key that cannot be compared (None next to ints): list.sort raises TypeError part-way;
                # BaseNode.sort works on a copy, so the children must stay exactly as they were
                tgt = sh.kids[p][-1] if (sh.kids[p] and rng.random() < 0.7) else rng.randrange(n)
                keys[tgt] = None
            ops.append(["Sort", p, keys, rng.random() < 0.4])
            # shadow order is only used for bias; keep as is
        elif cls == "Node":
            ops.append(["SetSep", rng.randrange(live), rng.choice(sep_pool)])
    case = {"cls": cls, "assert": assertions, "n": n, "names": names, "seps": seps, "ops": ops,
            "stratum": pool_name}
    if prop == "C03":
        case["lookups"] = [[rng.randrange(live), rng.randrange(live)] for _ in range(4)]
    return case


def corpus(prop):
    out = []
    if prop == "C03":
        # known finding K3: multi-character separator, name ending in one of its characters
        out.append(("K3-witness", {"cls": "Node", "assert": True, "n": 2, "names": ["r", "a-"], "seps": ["->", "->"],
                                   "ops": [["Append", 0, 1, "none"]], "stratum": "k3", "lookups": [[0, 1], [1, 1]]}))
    if prop == "C02":
        # witness of the repaired defect F1 (stolen children restored in argument order)
        out.append(("F1-witness", {"cls": "BaseNode", "assert": True, "n": 5, "names": ["a"] * 5, "seps": ["/"] * 5,
                                   "ops": [["SetChildren", 0, "list", [["N", 1], ["N", 2], ["N", 3]], "none"],
                                           ["SetChildren", 4, "list", [["N", 2], ["N", 1]], "post"]], "stratum": "f1"}))
    return out


def static_tie(prop, repo):
    """C20: every read of the switch in the current source must have the shape the models give it."""
    if prop != "C20":
        return None
    from .. import switchscan
    st = switchscan.scan(repo)
    st["what"] = ("the models read the switch only as `if assertions then <pure guard>` at the top of the six "
                  "setters; the source now depends on ASSERTIONS in another way (logic under the flag)")
    st["theorems"] = ["C20_forest_step", "C20_forest_history", "C20_forest_guards_pure_strong", "C20_binary_guards_pure",
                      "C20_dag_hook_failure_irrelevant"]
    return st


def matches_finding(prop, entry, case, obs, flags):
    if prop == "C03" and entry.get("id") == "K3-C03":
        # narrow: some name starts or ends with a character of a multi-character separator in use
        seps = set(case["seps"]) | {op[2] for op in case["ops"] if op and op[0] == "SetSep"}
        return flags == 2 and any(len(sp) >= 2 and nm and (nm[0] in sp or nm[-1] in sp)
                                  for sp in seps for nm in map(str, case["names"]))
    return False


def _all_forests(n):
    """every forest on n labelled nodes with ordered child lists, as construction op lists"""
    import itertools
    out = []
    for par in itertools.product([None] + list(range(n)), repeat=n):
        ok = True
        for x in range(n):
            seen = set()
            y = x
            while y is not None and y not in seen:
                seen.add(y)
                y = par[y]
            if y is not None:
                ok = False
                break
        if not ok:
            continue
        kids = {p: [c for c in range(n) if par[c] == p] for p in range(n)}
        orders = [list(itertools.permutations(kids[p])) for p in range(n)]
        for combo in itertools.product(*orders):
            ops = []
            for p in range(n):
                for c in combo[p]:
                    ops.append(["SetParent", c, ["N", p], "none"])
            out.append(ops)
    return out


def _all_ops(n, faults):
    import itertools
    ops = []
    args = [["N", i] for i in range(n)] + [["None"], ["Junk"]]
    for c in range(n):
        for a in args:
            for f in faults:
                ops.append(["SetParent", c, a, f])
    for p in range(n):
        for k in range(0, n + 1):
            for lst in itertools.permutations(range(n), k):
                for f in faults:
                    if f == "pre" and k > 1:
                        continue
                    ops.append(["SetChildren", p, "list", [["N", i] for i in lst], f])
        ops.append(["SetChildren", p, "tuple", [["N", (p + 1) % n], ["N", (p + 1) % n]], "none"])
        ops.append(["SetChildren", p, "list", [["N", (p + 1) % n], ["Junk"]], "none"])
        ops.append(["SetChildren", p, "other", [], "none"])
        ops.append(["DelChildren", p])
        ops.append(["Sort", p, list(range(n, 0, -1)), False])
        ops.append(["Sort", p, [0] * n, True])
        ops.append(["Sort", p, list(range(n - 1, 0, -1)) + [None], False])
        ops.append(["Sort", p, [None] + list(range(n - 1, 0, -1)), True])
        ops.append(["Extend", p, [(p + 1) % n, (p + 2) % n], ["none", "none"]])
    return ops


def exhaustive(prop, n):
    """small-scope exhaustive stratum: every forest on n nodes x every operation (one history each)"""
    faults = ["none", "post", "pre"] if prop == "C02" else ["none", "post"]
    ops = _all_ops(n, faults)
    for build in _all_forests(n):
        for o in ops:
            yield {"cls": "BaseNode", "assert": True, "n": n, "names": ["a"] * n, "seps": ["/"] * n,
                   "ops": build + [o], "stratum": f"exhaustive{n}"}


def generate(prop, rng, tier):
    count = {"quick": 1400, "thorough": 12000, "search": 4000}[tier]
    if tier == "thorough" and prop in ("C01", "C02"):
        for n in (2, 3, 4):
            for c in exhaustive(prop, n):
                yield f"exhaustive/n{n}", c
    elif tier == "quick" and prop in ("C01", "C02"):
        for c in exhaustive(prop, 3):
            yield "exhaustive/n3", c
    if prop == "C20":
        count = {"quick": 700, "thorough": 6000, "search": 2000}[tier]
    fr = {"C01": 0.08, "C02": 0.4, "C03": 0.1, "C20": 0.15}[prop]   # C20: hook failures happen with the checks on AND off
    ir = {"C01": 0.2, "C02": 0.25, "C03": 0.1, "C20": 0.0}[prop]
    for i in range(count):
        cls = "Node" if prop == "C03" else None
        if prop == "C20" and rng.random() < 0.15:
            # a user subclass whose nodes compare by name (value semantics): valid histories only
            c = gen_case(rng, prop, cls="Node", fault_rate=0.0, invalid_rate=0.0)
            c["eq"] = True
            c["stratum"] = "eq-" + c["stratum"]
            yield f"NodeEq/{c['stratum']}", c
            continue
        if prop != "C20" and rng.random() < 0.10:
            # checks switched off: histories without type/loop violations, run in the no-assertion interpreter and
            # compared with the model under assertions := false (duplicate names and hook failures included)
            c = gen_case(rng, prop, cls=cls, fault_rate=fr, invalid_rate=0.0, assertions=False)
            c["stratum"] = "off-" + c["stratum"]
            yield f"{c['cls']}-off/{c['stratum']}", c
            continue
        c = gen_case(rng, prop, cls=cls, fault_rate=fr, invalid_rate=ir)
        if prop != "C20" and c["cls"] == "Node" and rng.random() < 0.12:
            # the same histories (invalid arguments and failing hooks included) on a user subclass whose nodes
            # compare and hash by name: the library's links work on identity, sibling names are unique, so
            # nothing may change.  Set containers are given as lists (a set of equal nodes collapses before
            # the library sees it).
            c["eq"] = True
            c["stratum"] = "eq-" + c["stratum"]
            for o in c["ops"]:
                if o[0] == "SetChildren" and o[2] == "set":
                    o[2] = "list"
                if o[0] == "Construct" and o[3] == "set":
                    o[3] = "list"
            yield f"NodeEq/{c['stratum']}", c
            continue
        yield f"{c['cls']}/{c['stratum']}", c


def shrink_candidates(prop, case):
    ops = case["ops"]
    # drop one op; truncate
    for k in range(len(ops) - 1, 0, -1):
        c = dict(case)
        c["ops"] = ops[:k]
        yield c
    for k in range(len(ops)):
        c = dict(case)
        c["ops"] = ops[:k] + ops[k + 1:]
        yield c
    # remove faults
    for k, o in enumerate(ops):
        if o[0] in ("SetParent", "Append", "RShift", "LShift", "DelItem") and o[-1] != "none":
            c = dict(case)
            c["ops"] = ops[:k] + [o[:-1] + ["none"]] + ops[k + 1:]
            yield c
        if o[0] == "SetChildren":
            for j in range(len(o[3])):
                c = dict(case)
                c["ops"] = ops[:k] + [[o[0], o[1], o[2], o[3][:j] + o[3][j + 1:], o[4]]] + ops[k + 1:]
                yield c


def size(case):
    return sum(1 + (len(o[3]) if o[0] == "SetChildren" else len(o[2]) if o[0] == "Extend" else 0) for o in case["ops"])


def nontrivial(prop, case, obs):
    # at least 3 nodes linked at some point and at least one accepted structural change
    acc = sum(1 for l, code in obs["trace"] if code == 0)
    linked = max((sum(1 for p, cs in l if p is not None) for l, code in obs["trace"]), default=0)
    if prop == "C02":
        rej = sum(1 for l, code in obs["trace"] if code != 0)
        return acc >= 1 and rej >= 1 and linked >= 2
    return acc >= 2 and linked >= 2


def sample(prop, case, obs):
    return {"class": case["cls"], "n": case["n"], "names": case["names"], "ops": case["ops"],
            "outcomes": [code for _, code in obs["trace"]], "final_links": obs["trace"][-1][0] if obs["trace"] else []}


def rule(prop):
    return ("random operation histories (<= 18 ops, 3-8 nodes) over BaseNode/Node subclasses with fault-injecting hooks; "
            "strata: class x name pool (distinct/repeated/affix/special) x op kinds incl. invalid arguments; "
            "non-trivial = >=2 accepted ops and >=2 linked nodes (C02: additionally >=1 rejected/failing op); distinct by canonical JSON hash")


def explain(prop, case, obs, flags):
    from ._base import explain as base
    return base(prop, case, obs, flags)


def trusted_base(prop):
    return COMMON_TB + ["fault injection through the documented _<Class>__pre/post_assign_* extension points"]


def partial_clauses(prop):
    return []
