"""Engine `construct`: the path-based constructors of bigtree/tree/construct.py (C05).

One case = one row list [(path | name, attribute dict)] (+ an existing tree for the add_* entry points)
that is fed to every entry point of its family:
  new  : list_to_tree, dict_to_tree, dataframe_to_tree, polars_to_tree
  add  : add_path_to_tree (row by row), add_dict_to_tree_by_path, add_dataframe_to_tree_by_path,
         add_polars_to_tree_by_path
  name : add_dict_to_tree_by_name, add_dataframe_to_tree_by_name, add_polars_to_tree_by_name
Observed per entry point: exception code, root.sep, the whole tree in pre-order
(depth, tag, name, attrs sorted by key) and the pre-order index of the returned node(s).
"""
import math
import warnings

from ..core import cbool, clist, copt, cpair, cstr, cZ
from ._base import *  # noqa
from ._base import exn_code, COMMON_TB

SERVES = ["C05"]
COQ_TARGETS = ["theories/Corr/ConstructCorr.vo"]
CASES_PER_FILE = 60

FAMILIES = {
    "new": ["KList", "KDict", "KFrame", "KPolars"],
    "add": ["KAddPath", "KAddDict", "KAddFrame", "KAddPolars"],
    "name": ["KNameDict", "KNameFrame", "KNamePolars"],
}
PCOL = "PATH"
KEY_TYPES = {"x": "int", "y": "int", "s": "str", "b": "bool", "name": "str"}


def coq_header(prop):
    return "From BT Require Import Base.Prelude Base.Rose Algo.Construct Corr.ConstructCorr."


def coq_case_type(prop):
    return "ccase"


def coq_check(prop):
    return "check_C05"


# ---------------------------------------------------------------------------------------------
# implementation side


def _canon(v):
    """attribute value -> JSON value (None | bool | int | str); NaN/None -> None, integral float -> int"""
    if v is None:
        return None
    tn = type(v).__name__
    if isinstance(v, bool) or tn in ("bool_", "bool"):
        return bool(v)
    if isinstance(v, int) or tn.startswith("int") or tn.startswith("uint"):
        return int(v)
    if isinstance(v, float) or tn.startswith("float"):
        f = float(v)
        if math.isnan(f):
            return None
        if f == int(f):
            return int(f)
        raise ValueError("non-integral float attribute %r" % (v,))
    if isinstance(v, str):
        return str(v)
    if tn in ("NAType", "NaTType"):
        return None
    raise ValueError("attribute value of unexpected type %s" % tn)


def _attrs(n):
    return sorted([k, _canon(v)] for k, v in vars(n).items() if not k.startswith("_") and k != "name")


def _observe(root, nodes):
    idx = {id(n): i for i, n in enumerate(nodes)}
    out = []
    order = {}

    def walk(n, d):
        order[id(n)] = len(out)
        nm = n.node_name
        if not isinstance(nm, str):
            raise ValueError("node name of type %s" % type(nm).__name__)
        out.append([d, idx.get(id(n)), str(nm), _attrs(n)])
        for c in n.children:
            walk(c, d + 1)

    walk(root, 1)
    return out, order


def _build(case):
    from bigtree.node.node import Node
    nodes, stack = [], []
    for depth, name, attrs in case["tree"]:
        kw = {k: v for k, v in attrs}
        n = Node(name, sep=case["tsep"], **kw) if depth == 1 else Node(name, **kw)
        if depth > 1:
            n.parent = stack[depth - 2]
        del stack[depth - 1:]
        stack.append(n)
        nodes.append(n)
    return nodes


def _columns(rows):
    cols = []
    for _, a in rows:
        for k, _v in a:
            if k not in cols:
                cols.append(k)
    return cols


def _pandas(rows, idcol):
    import pandas as pd
    cols = _columns(rows)
    if not rows:
        return pd.DataFrame(columns=[idcol] + cols)
    return pd.DataFrame([[p] + [dict(a).get(c) for c in cols] for p, a in rows], columns=[idcol] + cols)


def _polars(rows, idcol):
    import polars as pl
    ty = {"int": pl.Int64, "str": pl.String, "bool": pl.Boolean}
    cols = _columns(rows)
    schema = {idcol: pl.String}
    data = {idcol: [p for p, _ in rows]}
    for c in cols:
        schema[c] = ty[KEY_TYPES[c]]
        data[c] = [dict(a).get(c) for _, a in rows]
    return pl.DataFrame(data, schema=schema)


def _as_dict(rows):
    return {p: {k: v for k, v in a} for p, a in rows}


def _run_kind(kind, case):
    from bigtree.tree import construct as C
    sep, dup, rows = case["sep"], case["dup"], case["rows"]
    nodes = _build(case) if case["tree"] else []
    start = nodes[case["start"]] if nodes else None
    code, rets, root = 0, [], (nodes[0] if nodes else None)
    try:
        if kind == "KList":
            root = C.list_to_tree([p for p, _ in rows], sep=sep, duplicate_name_allowed=dup)
            rets = [root]
        elif kind == "KDict":
            root = C.dict_to_tree(_as_dict(rows), sep=sep, duplicate_name_allowed=dup)
            rets = [root]
        elif kind == "KFrame":
            root = C.dataframe_to_tree(_pandas(rows, PCOL), sep=sep, duplicate_name_allowed=dup)
            rets = [root]
        elif kind == "KPolars":
            root = C.polars_to_tree(_polars(rows, PCOL), sep=sep, duplicate_name_allowed=dup)
            rets = [root]
        elif kind == "KAddPath":
            for p, a in rows:
                rets.append(C.add_path_to_tree(start, p, sep=sep, duplicate_name_allowed=dup,
                                               node_attrs={k: v for k, v in a}))
        elif kind == "KAddDict":
            rets = [C.add_dict_to_tree_by_path(start, _as_dict(rows), sep=sep, duplicate_name_allowed=dup)]
        elif kind == "KAddFrame":
            rets = [C.add_dataframe_to_tree_by_path(start, _pandas(rows, PCOL), sep=sep, duplicate_name_allowed=dup)]
        elif kind == "KAddPolars":
            rets = [C.add_polars_to_tree_by_path(start, _polars(rows, PCOL), sep=sep, duplicate_name_allowed=dup)]
        elif kind == "KNameDict":
            rets = [C.add_dict_to_tree_by_name(start, _as_dict(rows))]
        elif kind == "KNameFrame":
            rets = [C.add_dataframe_to_tree_by_name(start, _pandas(rows, "NAME"))]
        elif kind == "KNamePolars":
            rets = [C.add_polars_to_tree_by_name(start, _polars(rows, "NAME"))]
        else:
            raise KeyError(kind)
    except Exception as e:  # noqa
        code = exn_code(e)
        rets = []
        if kind in FAMILIES["new"]:
            root = None
    if root is None:
        return {"kind": kind, "code": code, "sep": sep, "tree": [], "rets": []}
    top = root.root
    tree, order = _observe(top, nodes)
    return {"kind": kind, "code": code, "sep": top.sep, "tree": tree,
            "rets": [order.get(id(r), 10 ** 6) for r in rets]}


def run_impl(prop, case):
    with warnings.catch_warnings():
        warnings.simplefilter("ignore")
        return {"obs": [_run_kind(k, case) for k in case["kinds"]]}


# ---------------------------------------------------------------------------------------------
# Coq literals


def _cval(v):
    if v is None:
        return "VNone"
    if isinstance(v, bool):
        return f"VBool {cbool(v)}"
    if isinstance(v, int):
        return f"VInt {cZ(v)}"
    if isinstance(v, str):
        return f"VStr {cstr(v)}"
    raise TypeError(type(v))


def _cattrs(a):
    return clist(cpair(cstr(k), _cval(v)) for k, v in a)


def _ctree(t):
    return clist(f"({int(d)}, ({copt(g, str)}, {cstr(n)}, {_cattrs(a)}))" for d, g, n, a in t)


def emit(prop, case, obs):
    tree = [[d, i, n, a] for i, (d, n, a) in enumerate(case["tree"])]
    rows = clist(cpair(cstr(p), _cattrs(a)) for p, a in case["rows"])
    obl = clist(
        f"CO {o['kind']} {int(o['code'])} ({cstr(o['sep'])}) ({_ctree(o['tree'])}) ({clist(str(min(int(r), 999)) for r in o['rets'])})"
        for o in obs["obs"])
    pcol = "NAME" if case["family"] == "name" else PCOL
    return (f"CC ({cstr(case['sep'])}) {cbool(case['dup'])} ({cstr(case['tsep'])}) ({_ctree(tree)}) "
            f"{int(case['start'])} ({cstr(pcol)}) ({rows}) ({obl})")


# ---------------------------------------------------------------------------------------------
# generation

NAME_POOLS = {
    "distinct": list("abcdefghijklmn"),
    "repeated": ["a", "b", "c"],
    "affix": ["a", "xa", "ab", "b", "bc", "abc", "xb", "c"],
    "special": ["a.b", "(", "+", "a b", "a'", "0", "a1", "a", "10", "-", "ü", "name", "A"],
}
SEPS = ["/", "\\", "-", ".", "|"]
SHAPES = ["wide", "deep", "mixed", "path", "star"]


def gen_shape(rng, shape, pool, nmax):
    """list of name paths (prefix closed, creation order = pre-existing child order), root first"""
    root = rng.choice(pool)
    if pool is NAME_POOLS["affix"] and rng.random() < 0.7:
        root = "a"
    nodes = [[root]]
    kids = {(root,): []}

    def add(parent):
        used = kids[tuple(parent)]
        free = [x for x in pool if x not in used]
        if not free:
            return None
        nm = rng.choice(free)
        used.append(nm)
        p = parent + [nm]
        nodes.append(p)
        kids[tuple(p)] = []
        return p

    n = rng.randint(2, nmax)
    budget = [60]

    def more():
        budget[0] -= 1
        return len(nodes) < n and budget[0] > 0

    if shape == "path":
        cur = nodes[0]
        for _ in range(min(n, 8) - 1):
            cur = add(cur) or cur
    elif shape == "star":
        for _ in range(min(n, 7) - 1):
            add(nodes[0])
    elif shape == "wide":
        for _ in range(rng.randint(2, 6)):
            add(nodes[0])
        while more():
            add(rng.choice(nodes[: 1 + len(kids[(root,)])]))
    elif shape == "deep":
        cur = nodes[0]
        while more():
            if len(cur) < 8 and rng.random() < 0.7:
                cur = add(cur) or nodes[0]
            else:
                add(rng.choice([p for p in nodes if len(p) < 8]))
    else:
        while more():
            add(rng.choice([p for p in nodes if len(p) < 8]))
    return nodes


def gen_attrs(rng, allow_name, rate=0.55):
    if rng.random() > rate:
        return []
    out = []
    keys = ["x", "s", "y", "b"] + (["name"] if allow_name else [])
    rng.shuffle(keys)
    for k in keys[: rng.randint(1, 3)]:
        t = KEY_TYPES[k]
        if t == "int":
            v = rng.choice([0, 0, 1, 2, -1, 7, None])
        elif t == "bool":
            v = rng.choice([True, False, False, None])
        elif k == "name":
            v = rng.choice(["zz", None])
        else:
            v = rng.choice(["", "", "q", "r", "0", None])
        out.append([k, v])
    return out


def pick_sep(rng, names, multi=False):
    cands = [s for s in SEPS if not any(s in n for n in names)]
    return rng.choice(cands) if cands else "/"


def render(rng, path, sep, deco=True):
    s = sep.join(path)
    if deco:
        r = rng.random()
        if r < 0.2:
            s = sep + s
        elif r < 0.35:
            s = s + sep
        elif r < 0.45:
            s = sep + s + sep
        elif r < 0.5:
            s = sep + sep + s
    return s


def gen_suffix_trap(rng):
    """duplicate names disallowed and a node whose path string ends with the path to be added
    (root a, a/xa/b present, a/b requested): the comparison must be on the full path"""
    r = rng.choice(["a", "b", "ab"])
    mid = rng.choice(["x", "y", "xx", "a"]) + r
    leaf = rng.choice([n for n in ["b", "c", "k", "xa"] if n not in (r, mid)])
    sep = rng.choice(SEPS)
    dup = rng.random() < 0.2
    deep = rng.random() < 0.4
    trap = [r, mid, "m", leaf] if deep else [r, mid, leaf]
    want = [r, "m", leaf] if deep and rng.random() < 0.5 else [r, leaf]
    family = rng.choice(["new", "add"])
    case = {"family": family, "sep": sep, "dup": dup, "tsep": "/", "tree": [], "start": 0,
            "kinds": list(FAMILIES[family]), "stratum": f"{family}/suffixtrap/affix"}
    if family == "new":
        rows = [[render(rng, trap, sep), gen_attrs(rng, False, 0.3)], [render(rng, want, sep), gen_attrs(rng, False, 0.3)]]
        if rng.random() < 0.4:
            rows.insert(rng.randint(0, 1), [render(rng, [r, "q"], sep), []])
    else:
        case["tree"] = [[i + 1, n, []] for i, n in enumerate(trap)]
        case["tsep"] = rng.choice([sep, "/"])
        rows = [[render(rng, want, sep), gen_attrs(rng, False, 0.3)]]
        if rng.random() < 0.4:
            rows.append([render(rng, [r, "q"], sep), []])
    case["rows"] = rows
    return case


def gen_case(rng, family=None):
    if family is None and rng.random() < 0.04:
        return gen_suffix_trap(rng)
    family = family or rng.choice(["new", "new", "add", "add", "add", "name"])
    pool_name = rng.choice(list(NAME_POOLS))
    pool = NAME_POOLS[pool_name]
    shape = rng.choice(SHAPES)
    nodes = gen_shape(rng, shape, pool, rng.choice([4, 6, 8, 10, 12]))
    names = sorted({n for p in nodes for n in p})
    sep = pick_sep(rng, names)
    dup = rng.random() < 0.6
    allow_name = rng.random() < 0.08
    case = {"family": family, "sep": sep, "dup": dup, "tsep": "/", "tree": [], "start": 0,
            "kinds": list(FAMILIES[family]), "stratum": f"{family}/{shape}/{pool_name}"}

    if family == "name":
        case["tree"] = [[len(p), p[-1], gen_attrs(rng, False, 0.3)] for p in _preorder(nodes)]
        case["tsep"] = rng.choice(SEPS)
        case["start"] = rng.randrange(len(nodes)) if rng.random() < 0.4 else 0
        rows = []
        cand = names + ["zq"]
        rng.shuffle(cand)
        for nm in cand[: rng.randint(0 if rng.random() < 0.06 else 1, 5)]:
            rows.append([nm, gen_attrs(rng, allow_name, 0.85)])
        if rows and rng.random() < 0.3:
            r = rng.choice(rows)
            rows.insert(rng.randint(0, len(rows)),
                        [r[0], [list(kv) for kv in r[1]] if rng.random() < 0.6 else gen_attrs(rng, False, 0.9)])
        case["rows"] = rows
        return case

    # rows: leaves, some inner nodes, some repetitions, in an order that revisits branches
    leaves = [p for p in nodes if not any(q[:len(p)] == p and len(q) > len(p) for q in nodes)]
    chosen = list(leaves) + [p for p in nodes if p not in leaves and rng.random() < 0.35]
    if rng.random() < 0.3:
        chosen = [p for p in chosen if rng.random() < 0.7] or chosen[:1]
    if rng.random() < 0.7:
        rng.shuffle(chosen)
    rows = []
    for p in chosen:
        rows.append([render(rng, p, sep), gen_attrs(rng, allow_name)])
    # repetitions of a path (other spelling of the leading/trailing separator); mostly with the same
    # attributes (frames accept those), sometimes with different ones (frames must refuse, dicts overwrite)
    for _ in range(rng.choice([0, 0, 0, 1, 2])):
        k = rng.randrange(len(rows))
        attrs = [list(kv) for kv in rows[k][1]] if rng.random() < 0.65 else gen_attrs(rng, allow_name)
        at = rng.randint(0, len(rows))
        rows.insert(at, [render(rng, chosen[k], sep), attrs])
        chosen.insert(at, chosen[k])
    # malformed stream
    r = rng.random()
    if r < 0.04 and len(rows) > 0:
        k = rng.randrange(len(rows))
        other = rng.choice([n for n in pool if n != nodes[0][0]] or ["zz"])
        rows[k][0] = render(rng, [other] + chosen[min(k, len(chosen) - 1)][1:], sep)
        case["stratum"] += "/wrongroot"
    elif r < 0.07 and len(rows) > 0:
        k = rng.randrange(len(rows))
        p = chosen[min(k, len(chosen) - 1)]
        if len(p) >= 2:
            j = rng.randint(1, len(p) - 1)
            rows[k][0] = sep.join(p[:j]) + sep + sep + sep.join(p[j:])
        else:
            rows[k][0] = rng.choice(["", sep, sep + sep])
        case["stratum"] += "/emptycomp"
    elif r < 0.085:
        rows = []
        case["stratum"] += "/norows"
    case["rows"] = rows

    if family == "add":
        if any(k == "name" for _, a in rows for k, _v in a):
            # add_path_to_tree / add_dict_to_tree_by_path pass a "name" attribute on unfiltered (it renames
            # the node): outside the modelled domain, only the filtering entry points get such rows
            case["kinds"] = ["KAddFrame", "KAddPolars"]
        keep = [nodes[0]]
        for p in nodes[1:]:
            if p[:-1] in keep and rng.random() < 0.55:
                keep.append(p)
        if rng.random() < 0.3:
            # existing children in an order different from the creation order
            rest = keep[1:]
            rng.shuffle(rest)
            rest.sort(key=len)
            keep = [keep[0]] + rest
        pre = _preorder(keep)
        case["tree"] = [[len(p), p[-1], gen_attrs(rng, False, 0.3)] for p in pre]
        case["tsep"] = sep if rng.random() < 0.5 else rng.choice(SEPS)
        case["start"] = rng.randrange(len(pre)) if rng.random() < 0.4 else 0
    return case


def _preorder(paths):
    """pre-order of a prefix-closed path list, children in list order"""
    out = []

    def walk(p):
        out.append(p)
        for q in paths:
            if len(q) == len(p) + 1 and q[:-1] == p:
                walk(q)

    walk(paths[0])
    return out


def corpus(prop):
    def new(rows, sep="/", dup=True, kinds=None):
        return {"family": "new", "sep": sep, "dup": dup, "tsep": "/", "tree": [], "start": 0,
                "rows": [[p, a] for p, a in rows], "kinds": kinds or list(FAMILIES["new"]), "stratum": "corpus"}

    def add(tree, rows, sep="/", dup=True, tsep="/", start=0, kinds=None):
        return {"family": "add", "sep": sep, "dup": dup, "tsep": tsep, "tree": tree, "start": start,
                "rows": [[p, a] for p, a in rows], "kinds": kinds or list(FAMILIES["add"]), "stratum": "corpus"}

    out = []
    # F4 (fixed): a/b on a tree holding a/xa/b with duplicate names disallowed must be refused
    out.append(("F4", add([[1, "a", []], [2, "xa", []], [3, "b", []]], [["a/b", []]], dup=False)))
    out.append(("F4-new", new([["a/xa/b", []], ["a/b", []]], dup=False)))
    # the fixture of the test-suite, leaf paths in an order that revisits the first branch
    out.append(("fixture", new([["a/b/d", [["x", 1]]], ["a/c/f", []], ["a/b/e/g", [["x", 0]]], ["a/b/e/h", [["s", ""]]],
                                ["a", [["x", 90]]], ["/a/c/", [["x", None]]]])))
    # uncle with the name of a deeper component
    out.append(("uncle", add([[1, "a", []], [2, "b", []], [3, "c", []], [4, "b", []], [4, "c", []]],
                             [["a/b/c/b/c/b", [["x", 0]]], ["a/b/c/c/c", []]])))
    # falsy values in frames
    out.append(("falsy", new([["a/b", [["x", 0], ["s", ""], ["b", False]]], ["a/c", [["x", None], ["s", None], ["b", None]]]])))
    out.append(("wrongroot", add([[1, "a", [["x", 1]]], [2, "b", []]], [["b/c", []], ["a/d", []]])))
    # K3: multi-character separator, a name ending in a character of the separator
    out.append(("K3-C05", new([["r->a-", []], ["r->b", []]], sep="->")))
    return out


def generate(prop, rng, tier):
    count = {"quick": 1300, "thorough": 26000, "search": 4000}[tier]
    for _ in range(count):
        c = gen_case(rng)
        yield c["stratum"], c


# ---------------------------------------------------------------------------------------------


def shrink_candidates(prop, case):
    rows = case["rows"]
    if len(case["kinds"]) > 1:
        for k in case["kinds"]:
            c = dict(case)
            c["kinds"] = [k]
            yield c
    for k in range(len(rows)):
        c = dict(case)
        c["rows"] = rows[:k] + rows[k + 1:]
        yield c
    for k, (p, a) in enumerate(rows):
        if a:
            c = dict(case)
            c["rows"] = rows[:k] + [[p, []]] + rows[k + 1:]
            yield c
            for j in range(len(a)):
                c = dict(case)
                c["rows"] = rows[:k] + [[p, a[:j] + a[j + 1:]]] + rows[k + 1:]
                yield c
    tree = case["tree"]
    for k in range(len(tree) - 1, 0, -1):
        leaf = k == len(tree) - 1 or tree[k + 1][0] <= tree[k][0]
        if leaf and case["start"] != k:
            c = dict(case)
            c["tree"] = tree[:k] + tree[k + 1:]
            if case["start"] > k:
                c["start"] = case["start"] - 1
            yield c
    for k, (d, n, a) in enumerate(tree):
        if a:
            c = dict(case)
            c["tree"] = tree[:k] + [[d, n, []]] + tree[k + 1:]
            yield c
    if case["start"]:
        c = dict(case)
        c["start"] = 0
        yield c


def size(case):
    return (10 * len(case["rows"]) + 10 * len(case["tree"]) + 3 * len(case["kinds"])
            + sum(len(a) for _, a in case["rows"]) + sum(len(a) for _, _, a in case["tree"])
            + sum(len(p) for p, _ in case["rows"]))


def nontrivial(prop, case, obs):
    # some entry point accepted the input and the resulting tree has >= 3 nodes; or >= 1 row was refused
    acc = [o for o in obs["obs"] if o["code"] == 0 and len(o["tree"]) >= 3]
    rej = [o for o in obs["obs"] if o["code"] != 0]
    return bool(case["rows"]) and (bool(acc) or bool(rej))


def sample(prop, case, obs):
    return {"family": case["family"], "sep": case["sep"], "duplicate_name_allowed": case["dup"],
            "existing_tree": case["tree"], "rows": case["rows"],
            "outcomes": {o["kind"]: o["code"] for o in obs["obs"]},
            "result_paths": [[d, n] for d, _, n, _ in (obs["obs"][0]["tree"] if obs["obs"] else [])]}


def rule(prop):
    return ("row lists derived from random name tries (<= 12 nodes; shapes wide/deep/mixed/path/star; name pools "
            "distinct/repeated/affix/special; 5 single-character separators with optional leading/trailing separator; "
            "attribute dicts with nulls and falsy values; malformed: wrong root, empty component, no rows) fed to all "
            "entry points of a family (new: list/dict/dataframe/polars_to_tree; add: add_path_to_tree + "
            "add_{dict,dataframe,polars}_to_tree_by_path on a pre-existing tree; name: add_*_to_tree_by_name); "
            "non-trivial = non-empty row list and (an accepted call yielding >= 3 nodes or a refused call); "
            "distinct by canonical JSON hash")


def _components(path, sep):
    return path.split(sep) if sep else [path]


def matches_finding(prop, entry, case, obs, flags):
    """K3-C05: multi-character separator and a path component that starts or ends with one of the
    separator's characters (lstrip/rstrip treat `sep` as a character set); the model reproduces the
    implementation's behaviour (no disagreement), only the property predicate is false."""
    if entry.get("id") != "K3-C05":
        return False
    sep = case["sep"]
    if len(sep) < 2 or (flags & 1):
        return False
    chars = set(sep)
    for p, _ in case["rows"]:
        comps = [c for c in _components(p, sep)]
        # only the outermost characters of the whole string are exposed to lstrip/rstrip
        while comps and comps[0] == "":
            comps = comps[1:]
        while comps and comps[-1] == "":
            comps = comps[:-1]
        if comps and (comps[0][:1] in chars and comps[0][:1] != "" or comps[-1][-1:] in chars and comps[-1][-1:] != ""):
            return True
    return False


def explain(prop, case, obs, flags):
    from ._base import explain as base
    return base(prop, case, obs, flags)


def trusted_base(prop):
    return COMMON_TB + [
        "pandas / polars internals (frame construction, str.lstrip/rstrip, drop_duplicates/unique, to_dict/to_dicts) "
        "are glue: modelled as operations on the row list and exercised only by this correspondence",
        "harness conversion of one row list into list / dict / DataFrame arguments (dict_of_rows, frame_of_rows in Algo/Construct.v)",
    ]


def partial_clauses(prop):
    return [
        "C05_model_satisfies_prop_partial (prop_C05 k i (run k i) = true, the predicate evaluated on every implementation "
        "output, accepted and refused inputs, either duplicate_name_allowed): proved for list_to_tree, dict_to_tree, "
        "add_path_to_tree, add_dict_to_tree_by_path under the guard: single-character path separator; existing tree's attribute "
        "dicts have distinct keys; with duplicates disallowed the tree's own separator is a single character.  Not covered by "
        "the umbrella theorem: the DataFrame/polars entry points (their clauses are C05_frame_to_tree_closure, C05_attrs_frame, "
        "C05_attrs_frame_nulls, C05_attrs_rows_exact, C05_accept_verdict; duplicate-attribute detection and the frame glue are "
        "compared by the correspondence only) and the boolean prop_byname (the by-name entry points have the Prop-level "
        "theorems C05_by_name_exact / _dict / _frame / _frame_rows)",
        "C05_no_dup_accept_iff, direction 'accepted => same as with duplicates allowed': under the guard that the tree's "
        "separator is one character occurring in no node name and no path component (the code compares joined path strings); "
        "the converse (C05_no_dup_accepts_distinct) and C05_no_dup_distinct are unguarded",
        "C05_leading_trailing_sep / C05_sep_independent / C05_parse_agrees and the umbrella theorem: single-character "
        "separators only (multi-character separators: known finding K3-C05, Example C05_multichar_sep_refuted)",
    ]


def assumptions(prop):
    return [
        "attribute keys are not constructor parameters / properties of Node (name, parent, children, sep, parents) where "
        "the code passes them on unfiltered (add_path_to_tree, add_dict_to_tree_by_path)",
        "frames handed to the DataFrame/polars entry points have homogeneous attribute columns (int / str / bool with nulls)",
        "polars add_polars_to_tree_by_name is not exercised on a frame without any attribute column (polars' rows_by_key "
        "raises inside the library there)",
    ]
