"""Engine `construct`: the path-based constructors of bigtree/tree/construct.py (C05).

One case = one row list [(path | name, attribute dict)] (+ an existing tree for the add_* entry points)
that is fed to every entry point of its family:
  new  : list_to_tree, dict_to_tree, dataframe_to_tree, polars_to_tree
  add  : add_path_to_tree (row by row), add_dict_to_tree_by_path, add_dataframe_to_tree_by_path,
         add_polars_to_tree_by_path
  name : add_dict_to_tree_by_name, add_dataframe_to_tree_by_name, add_polars_to_tree_by_name
Observed per entry point: exception code, root.sep, the whole tree in pre-order
(depth, tag, name, attrs sorted by key) and the pre-order index of the returned node(s).
"""
import math
import warnings

from ..core import cbool, clist, copt, cpair, cstr, cZ
from ._base import *  # noqa
from ._base import exn_code, COMMON_TB

SERVES = ["C05"]
COQ_TARGETS = ["theories/Corr/ConstructCorr.vo"]
CASES_PER_FILE = 60

FAMILIES = {
    "new": ["KList", "KDict", "KFrame", "KPolars"],
    "add": ["KAddPath", "KAddDict", "KAddFrame", "KAddPolars"],
    "name": ["KNameDict", "KNameFrame", "KNamePolars"],
}
PCOL = "PATH"
KEY_TYPES = {"x": "int", "y": "int", "s": "str", "b": "bool", "name": "str",
             # attribute names that are not Python identifiers / look private / are keywords
             "age group": "int", "unit-cost": "int", "_flag": "bool", "class": "str", "2024": "int"}
ODD_KEYS = ["age group", "unit-cost", "_flag", "class", "2024"]
# affixes / superstrings of the reserved key "name", of "path" and of the column-name options; names of Node properties
AFFIX_KEYS = ["n", "a", "m", "e", "na", "am", "me", "nam", "ame", "names", "name_en", "path", "pat", "depth", "shift",
              "col", "node"]
KEY_TYPES.update({"n": "int", "a": "str", "m": "int", "e": "bool", "na": "str", "am": "int", "me": "str", "nam": "int",
                  "ame": "str", "names": "str", "name_en": "str", "path": "str", "pat": "int", "depth": "int",
                  "shift": "int", "col": "int", "node": "str"})
PYV = "\x01py:"       # prefix of attribute values that stand for a Python list / dict / tuple / float (repr follows)


def coq_header(prop):
    return "From BT Require Import Base.Prelude Base.Rose Algo.Construct Corr.ConstructCorr."


def coq_case_type(prop):
    return "ccase"


def coq_check(prop):
    return "check_C05"


# ---------------------------------------------------------------------------------------------
# implementation side


def _canon(v):
    """attribute value -> JSON value (None | bool | int | str); NaN/None -> None, integral float -> int"""
    if v is None:
        return None
    tn = type(v).__name__
    if isinstance(v, bool) or tn in ("bool_", "bool"):
        return bool(v)
    if isinstance(v, int) or tn.startswith("int") or tn.startswith("uint"):
        return int(v)
    if isinstance(v, float) or tn.startswith("float"):
        f = float(v)
        if math.isnan(f):
            return None
        if f == int(f):
            return int(f)
        return PYV + repr(f)
    if isinstance(v, (list, dict, tuple)):
        return PYV + repr(v)
    if isinstance(v, str):
        return str(v)
    if tn in ("NAType", "NaTType"):
        return None
    raise ValueError("attribute value of unexpected type %s" % tn)


def _pyval(v, nan=False):
    """JSON attribute value -> the Python object handed to the implementation"""
    if isinstance(v, str) and v.startswith(PYV):
        import ast
        return ast.literal_eval(v[len(PYV):])
    if v is None and nan:
        return float("nan")
    return v


_PRIVATE = {"name", "_sep", "_BaseNode__parent", "_BaseNode__children"}


def _attrs(n):
    # everything in the instance dict except the four fields Node/BaseNode keep there themselves
    return sorted([k, _canon(v)] for k, v in vars(n).items() if k not in _PRIVATE)


_CLS = {}


def _node_class(case):
    """Node, or a user subclass of Node (created nodes must be of the class of the tree / of node_type)"""
    from bigtree.node.node import Node
    kind = case.get("opt", {}).get("cls")
    if kind not in ("sub", "sub_eq"):
        return Node
    if "sub" not in _CLS:
        class CNode(Node):
            pass

        class ENode(Node):
            """value semantics: nodes with the same name compare (and hash) equal -- the library must go by identity"""

            def __eq__(self, other):
                return isinstance(other, Node) and other.name == self.name

            def __hash__(self):
                return hash(self.name)
        _CLS["sub"] = CNode
        _CLS["sub_eq"] = ENode
    return _CLS[kind]


def _observe(root, nodes, cls):
    idx = {id(n): i for i, n in enumerate(nodes)}
    out = []
    order = {}

    def walk(n, d):
        order[id(n)] = len(out)
        nm = n.node_name
        if not isinstance(nm, str):
            raise ValueError("node name of type %s" % type(nm).__name__)
        if type(n) is not cls:
            raise ValueError("node %r is a %s, expected %s" % (nm, type(n).__name__, cls.__name__))
        if n.parent is not None and not any(c is n for c in n.parent.children):
            raise ValueError("node %r is not among the children of its parent" % nm)
        out.append([d, idx.get(id(n)), str(nm), _attrs(n)])
        for c in n.children:
            if c.parent is not n:
                raise ValueError("child %r does not point back to its parent" % c.node_name)
            walk(c, d + 1)

    walk(root, 1)
    return out, order


def _build(case):
    cls = _node_class(case)
    nodes, stack = [], []
    for depth, name, attrs in case["tree"]:
        kw = {k: _pyval(v) for k, v in attrs}
        n = cls(name, sep=case["tsep"], **kw) if depth == 1 else cls(name, **kw)
        if depth > 1:
            n.parent = stack[depth - 2]
        del stack[depth - 1:]
        stack.append(n)
        nodes.append(n)
    return nodes


def _columns(rows):
    cols = []
    for _, a in rows:
        for k, _v in a:
            if k not in cols:
                cols.append(k)
    return cols


EXTRA_COL = "zz unlisted"


def _frame_layout(case, idcol, all_rows):
    """column order of the frame and the keyword arguments naming the id / attribute columns.
    The columns are those of the whole row list (also when it is handed over in two batches)."""
    opt = case.get("opt", {})
    cols = _columns(all_rows)
    kw = {}
    order = [idcol] + cols
    if opt.get("pcol_pos") == "last":
        order = cols + [idcol]
    id_kw = "name_col" if case["family"] == "name" else "path_col"
    if opt.get("pcol_pos") == "last" or opt.get("explicit_cols"):
        kw[id_kw] = idcol
    if opt.get("explicit_cols") and cols:
        kw["attribute_cols"] = list(reversed(cols)) if opt.get("rev_cols") else list(cols)
        if opt.get("extra_col"):
            order = order + [EXTRA_COL]
    return cols, order, kw


def _cell(a, c, i):
    if c == EXTRA_COL:
        return i + 1
    return dict(a).get(c)


def _pandas(case, rows, idcol, all_rows):
    import pandas as pd
    cols, order, kw = _frame_layout(case, idcol, all_rows)
    if not rows:
        return pd.DataFrame(columns=order), kw
    df = pd.DataFrame([[p if c == idcol else _cell(a, c, i) for c in order] for i, (p, a) in enumerate(rows)],
                      columns=order)
    ix = case.get("opt", {}).get("index", "range")
    if ix == "repeat":
        df.index = [i // 2 for i in range(len(rows))] if len(rows) > 2 else [0] * len(rows)
    elif ix == "str":
        df.index = ["r%d" % (i % 2) for i in range(len(rows))]
    return df, kw


def _polars(case, rows, idcol, all_rows):
    import polars as pl
    ty = {"int": pl.Int64, "str": pl.String, "bool": pl.Boolean}
    cols, order, kw = _frame_layout(case, idcol, all_rows)
    schema, data = {}, {}
    for c in order:
        if c == idcol:
            schema[c] = pl.String
            data[c] = [p for p, _ in rows]
        elif c == EXTRA_COL:
            schema[c] = pl.Int64
            data[c] = [i + 1 for i in range(len(rows))]
        else:
            schema[c] = ty[KEY_TYPES[c]]
            data[c] = [dict(a).get(c) for _, a in rows]
    return pl.DataFrame(data, schema=schema), kw


def _as_dict(rows, nan=False):
    return {p: {k: _pyval(v, nan) for k, v in a} for p, a in rows}


def _dict_snapshot(d):
    return [(k, [(kk, vv if vv == vv else None) for kk, vv in v.items()]) for k, v in d.items()]


def _call(kind, case, C, start, rows, all_rows, cls):
    """one call of the entry point; returns (returned nodes, post-check) where post-check verifies that the
    caller's argument objects were left as they were and then mutates them (a result that aliases an
    argument object would change with it)"""
    sep, dup = case["sep"], case["dup"]
    opt = case.get("opt", {})
    pcol = opt.get("pcol", "NAME" if case["family"] == "name" else PCOL)
    nt = {"node_type": cls} if opt.get("cls") in ("sub", "sub_eq") else {}
    if kind == "KList":
        paths = [p for p, _ in rows]
        arg = tuple(paths) if opt.get("container") == "tuple" else list(paths)
        ret = [C.list_to_tree(arg, sep=sep, duplicate_name_allowed=dup, **nt)]

        def post():
            if list(arg) != paths:
                raise ValueError("the paths argument was modified by the call")
            if isinstance(arg, list):
                arg.append(sep.join(["zzmut", "zz"]))
        return ret, post
    nan = bool(opt.get("nan"))
    if kind in ("KDict", "KAddDict", "KNameDict"):
        d = _as_dict(rows, nan)
        snap = _dict_snapshot(d)
        if kind == "KDict":
            ret = [C.dict_to_tree(d, sep=sep, duplicate_name_allowed=dup, **nt)]
        elif kind == "KAddDict":
            ret = [C.add_dict_to_tree_by_path(start, d, sep=sep, duplicate_name_allowed=dup)]
        else:
            ret = [C.add_dict_to_tree_by_name(start, d)]

        def post():
            if _dict_snapshot(d) != snap:
                raise ValueError("the dictionary argument was modified by the call")
            for v in d.values():
                v["zzmut"] = 1
        return ret, post
    if kind == "KAddPath":
        ret, dicts = [], []
        for p, a in rows:
            na = {k: _pyval(v, nan) for k, v in a}
            dicts.append((na, [(k, v if v == v else None) for k, v in na.items()]))
            if not a and opt.get("omit_empty_attrs"):
                ret.append(C.add_path_to_tree(start, p, sep=sep, duplicate_name_allowed=dup))
            else:
                ret.append(C.add_path_to_tree(start, p, sep=sep, duplicate_name_allowed=dup, node_attrs=na))

        def post():
            for na, snap in dicts:
                if [(k, v if v == v else None) for k, v in na.items()] != snap:
                    raise ValueError("a node_attrs argument was modified by the call")
                na["zzmut"] = 1
        return ret, post
    pandas = kind in ("KFrame", "KAddFrame", "KNameFrame")
    frame, kw = (_pandas if pandas else _polars)(case, rows, pcol, all_rows)
    copy = frame.copy() if pandas else frame.clone()
    if kind == "KFrame":
        ret = [C.dataframe_to_tree(frame, sep=sep, duplicate_name_allowed=dup, **kw, **nt)]
    elif kind == "KPolars":
        ret = [C.polars_to_tree(frame, sep=sep, duplicate_name_allowed=dup, **kw, **nt)]
    elif kind == "KAddFrame":
        ret = [C.add_dataframe_to_tree_by_path(start, frame, sep=sep, duplicate_name_allowed=dup, **kw)]
    elif kind == "KAddPolars":
        ret = [C.add_polars_to_tree_by_path(start, frame, sep=sep, duplicate_name_allowed=dup, **kw)]
    elif kind == "KNameFrame":
        ret = [C.add_dataframe_to_tree_by_name(start, frame, **kw)]
    elif kind == "KNamePolars":
        ret = [C.add_polars_to_tree_by_name(start, frame, **kw)]
    else:
        raise KeyError(kind)

    def post():
        same = (frame.equals(copy) and list(frame.index) == list(copy.index) and list(frame.columns) == list(copy.columns)
                ) if pandas else (frame.equals(copy) and frame.columns == copy.columns)
        if not same:
            raise ValueError("the frame argument was modified by the call")
    return ret, post


def _split_of(kind, case):
    n = case.get("opt", {}).get("split", 0)
    if n and kind in ("KAddDict", "KAddFrame", "KAddPolars", "KNameDict", "KNameFrame", "KNamePolars") and 0 < n < len(case["rows"]):
        return n
    return 0


def _run_kind(kind, case):
    from bigtree.tree import construct as C
    sep, rows = case["sep"], case["rows"]
    cls = _node_class(case)
    nodes = _build(case) if case["tree"] else []
    start = nodes[case["start"]] if nodes else None
    code, rets, root = 0, [], (nodes[0] if nodes else None)
    split = _split_of(kind, case)
    batches = [rows[:split], rows[split:]] if split else [rows]
    posts = []
    try:
        for b in batches:
            rets, post = _call(kind, case, C, start, b, rows, cls)
            posts.append(post)
        if kind in FAMILIES["new"]:
            root = rets[0]
    except Exception as e:  # noqa
        code = exn_code(e)
        rets = []
        if kind in FAMILIES["new"]:
            root = None
    if root is None:
        return {"kind": kind, "code": code, "sep": sep, "tree": [], "rets": [], "split": split}
    for post in posts:
        post()
    top = root.root
    tree, order = _observe(top, nodes, cls)
    return {"kind": kind, "code": code, "sep": top.sep, "tree": tree,
            "rets": [order.get(id(r), 10 ** 6) for r in rets], "split": split}


def _node_at(root, names):
    """the node at a name path (root name first) in the tree as it is now"""
    if not names or root.node_name != names[0]:
        raise ValueError("history: no node at %r" % (names,))
    n = root
    for nm in names[1:]:
        hit = [c for c in n.children if c.node_name == nm]
        if len(hit) != 1:
            raise ValueError("history: no node at %r" % (names,))
        n = hit[0]
    return n


def _run_history(case):
    """add_path_to_tree calls on one or two roots, interleaved with structural edits through the node API"""
    from bigtree.tree import construct as C
    cls = _node_class(case)
    nodes = _build(case)
    roots = [nodes[0]]
    if case.get("tree2"):
        nodes2 = _build(dict(case, tree=case["tree2"]))
        roots.append(nodes2[0])
        nodes = nodes + nodes2
    opt = case.get("opt", {})
    out = []
    for op in case["ops"]:
        kind, ti = op[0], op[1]
        root = roots[ti]
        if kind == "add":
            na = {k: _pyval(v, bool(opt.get("nan"))) for k, v in op[3]}
            code, rets = 0, []
            try:
                if not op[3] and opt.get("omit_empty_attrs"):
                    r = C.add_path_to_tree(root, op[2], sep=case["sep"], duplicate_name_allowed=case["dup"])
                else:
                    r = C.add_path_to_tree(root, op[2], sep=case["sep"], duplicate_name_allowed=case["dup"], node_attrs=na)
                rets = [r]
            except Exception as e:  # noqa
                code = exn_code(e)
            if root.root is not root:
                raise ValueError("history: the root got a parent")
            tree, order = _observe(root, nodes, cls)
            out.append({"kind": "KAddPath", "code": code, "sep": root.sep, "tree": tree,
                        "rets": [order.get(id(r), 10 ** 6) for r in rets], "split": 0})
        elif kind == "del":
            n = _node_at(root, op[2])
            del n.parent[n.node_name]
        elif kind == "move":
            n = _node_at(root, op[2])
            n.parent = _node_at(root, op[3])
        elif kind == "sort":
            _node_at(root, op[2]).sort(key=lambda x: x.node_name)
        else:
            raise KeyError(kind)
    return {"obs": [], "adds": out}


def run_impl(prop, case):
    with warnings.catch_warnings():
        warnings.simplefilter("ignore")
        if case.get("ops"):
            return _run_history(case)
        return {"obs": [_run_kind(k, case) for k in case["kinds"]]}


# ---------------------------------------------------------------------------------------------
# Coq literals


def _cval(v):
    if v is None:
        return "VNone"
    if isinstance(v, bool):
        return f"VBool {cbool(v)}"
    if isinstance(v, int):
        return f"VInt {cZ(v)}"
    if isinstance(v, str):
        return f"VStr {cstr(v)}"
    raise TypeError(type(v))


def _cattrs(a):
    return clist(cpair(cstr(k), _cval(v)) for k, v in a)


def _ctree(t):
    return clist(f"({int(d)}, ({copt(g, str)}, {cstr(n)}, {_cattrs(a)}))" for d, g, n, a in t)


def _cobs(o):
    return (f"CO {o['kind']} {int(o['code'])} ({cstr(o['sep'])}) ({_ctree(o['tree'])}) "
            f"({clist(str(min(int(r), 999)) for r in o['rets'])}) {int(o.get('split', 0))}")


def _cnames(names):
    return clist(cstr(n) for n in names)


def emit(prop, case, obs):
    tree = [[d, i, n, a] for i, (d, n, a) in enumerate(case["tree"])]
    n0 = len(tree)
    tree2 = [[d, n0 + i, n, a] for i, (d, n, a) in enumerate(case.get("tree2") or [])]
    rows = clist(cpair(cstr(p), _cattrs(a)) for p, a in case["rows"])
    obl = clist(_cobs(o) for o in obs["obs"])
    ops = []
    adds = list(obs.get("adds", []))
    for op in case.get("ops") or []:
        if op[0] == "add":
            ops.append(f"SAdd {int(op[1])} ({cstr(op[2])}) ({_cattrs(op[3])}) ({_cobs(adds.pop(0))})")
        elif op[0] == "del":
            ops.append(f"SDel {int(op[1])} ({_cnames(op[2])})")
        elif op[0] == "move":
            ops.append(f"SMove {int(op[1])} ({_cnames(op[2])}) ({_cnames(op[3])})")
        else:
            ops.append(f"SSort {int(op[1])} ({_cnames(op[2])})")
    pcol = case.get("opt", {}).get("pcol", "NAME" if case["family"] == "name" else PCOL)
    return (f"CC ({cstr(case['sep'])}) {cbool(case['dup'])} ({cstr(case['tsep'])}) ({_ctree(tree)}) "
            f"{int(case['start'])} ({cstr(pcol)}) ({rows}) ({obl}) ({_ctree(tree2)}) ({clist(ops)})")


# ---------------------------------------------------------------------------------------------
# generation

NAME_POOLS = {
    "distinct": list("abcdefghijklmn"),
    "repeated": ["a", "b", "c"],
    "affix": ["a", "xa", "ab", "b", "bc", "abc", "xb", "c"],
    "special": ["a.b", "(", "+", "a b", "a'", "0", "a1", "a", "10", "-", "ü", "name", "A"],
    # names that start or end with the default separator or with a character of another separator of the
    # pool (the separator in use is then chosen free of all names)
    "sepish": ["usr/", "/etc", "a|", "|b", "x-", "-y", "c.", ".d", "e\\", "\\f", "g:", ">h", "/", "r", "s", "t", "u"],
}
SEPS = ["/", "\\", "-", ".", "|"]
MSEPS = ["->", "::", "=>", "//", "-|-"]          # separators of more than one character
ALLSEPS = SEPS + MSEPS


def char_free(sep, names):
    """no character of the separator occurs in any name (the guard of the multi-character theorems)"""
    return not any(ch in n for ch in sep for n in names)
SHAPES = ["wide", "deep", "mixed", "path", "star"]


def gen_shape(rng, shape, pool, nmax):
    """list of name paths (prefix closed, creation order = pre-existing child order), root first"""
    root = rng.choice(pool)
    if pool is NAME_POOLS["affix"] and rng.random() < 0.7:
        root = "a"
    nodes = [[root]]
    kids = {(root,): []}

    def add(parent):
        used = kids[tuple(parent)]
        free = [x for x in pool if x not in used]
        if not free:
            return None
        nm = rng.choice(free)
        used.append(nm)
        p = parent + [nm]
        nodes.append(p)
        kids[tuple(p)] = []
        return p

    n = rng.randint(2, nmax)
    budget = [60]

    def more():
        budget[0] -= 1
        return len(nodes) < n and budget[0] > 0

    if shape == "path":
        cur = nodes[0]
        for _ in range(min(n, 8) - 1):
            cur = add(cur) or cur
    elif shape == "star":
        for _ in range(min(n, 7) - 1):
            add(nodes[0])
    elif shape == "wide":
        for _ in range(rng.randint(2, 6)):
            add(nodes[0])
        while more():
            add(rng.choice(nodes[: 1 + len(kids[(root,)])]))
    elif shape == "deep":
        cur = nodes[0]
        while more():
            if len(cur) < 8 and rng.random() < 0.7:
                cur = add(cur) or nodes[0]
            else:
                add(rng.choice([p for p in nodes if len(p) < 8]))
    else:
        while more():
            add(rng.choice([p for p in nodes if len(p) < 8]))
    return nodes


RICH_VALUES = [PYV + "[]", PYV + "[1, 2]", PYV + "{}", PYV + "{'k': 1}", PYV + "1.5", PYV + "()"]


def gen_attrs(rng, allow_name, rate=0.55, odd=""):
    """odd: "" | "odd" | "affix", optionally followed by "+rich" (values may be lists / dicts / floats)"""
    if rng.random() > rate:
        return []
    out = []
    odd = odd or ""
    keys = ["x", "s", "y", "b"] + (["name"] if allow_name else [])
    if odd.startswith("odd"):
        keys = ["x", "s"] + ODD_KEYS + (["name"] if allow_name else [])
    elif odd.startswith("affix"):
        keys = ["x"] + AFFIX_KEYS + (["name"] if allow_name else [])
    rng.shuffle(keys)
    for k in keys[: rng.randint(1, 3)]:
        t = KEY_TYPES[k]
        if "+rich" in odd and rng.random() < 0.5:
            v = rng.choice(RICH_VALUES)
        elif t == "int":
            v = rng.choice([0, 0, 1, 2, -1, 7, None])
        elif t == "bool":
            v = rng.choice([True, False, False, None])
        elif k == "name":
            v = rng.choice(["zz", None])
        else:
            v = rng.choice(["", "", "q", "r", "0", None])
        out.append([k, v])
    return out


def pick_sep(rng, names, multi=False):
    many = [s for s in MSEPS if char_free(s, names)]
    if many and rng.random() < 0.4:
        return rng.choice(many)
    cands = [s for s in SEPS if char_free(s, names)] or [s for s in ALLSEPS + ["~", "#"] if char_free(s, names)]
    return rng.choice(cands) if cands else "/"


def pick_tsep(rng, names, dup, sep):
    """separator of the existing tree: often the one of the paths; with duplicate names disallowed one without
    characters in common with the names (the tree's separator takes part in the duplicate check)"""
    if rng.random() < 0.4:
        return sep
    cands = ALLSEPS if dup else ([s for s in ALLSEPS if char_free(s, names)] or ["/"])
    return rng.choice(cands)


def gen_k3(rng):
    """K3 territory: a multi-character separator and one name that starts or ends with one of its characters
    (substring-free, not character-free): lstrip/rstrip(sep) eat that character"""
    sep = rng.choice(MSEPS)
    pool = [n for n in NAME_POOLS["distinct"]]
    rng.shuffle(pool)
    root, a, b, c = pool[:4]
    ch = rng.choice(sorted(set(sep)))
    family = rng.choice(["new", "new", "add"])
    if rng.random() < 0.6 or family == "add":
        bad = c + ch                       # a last component ending with a separator character
        paths = [[root, a, bad], [root, b]]
        if ch + sep[:1] == sep[:2] or (c + ch).endswith(sep):
            paths = [[root, a, c + ch + ch]] + paths[1:]
    else:
        bad = ch + root                    # the root starting with a separator character
        paths = [[bad, a], [bad, b, c]]
    rng.shuffle(paths)
    case = {"family": family, "sep": sep, "dup": True, "tsep": "/", "tree": [], "start": 0,
            "kinds": list(FAMILIES[family]), "stratum": f"{family}/k3territory/distinct"}
    if family == "add":
        case["tree"] = [[1, root, []], [2, a, []]]
        case["tsep"] = rng.choice(ALLSEPS)
    case["rows"] = [[sep.join(p), gen_attrs(rng, False, 0.3)] for p in paths]
    return case


def render(rng, path, sep, deco=True):
    s = sep.join(path)
    if deco:
        r = rng.random()
        if r < 0.2:
            s = sep + s
        elif r < 0.35:
            s = s + sep
        elif r < 0.45:
            s = sep + s + sep
        elif r < 0.5:
            s = sep + sep + s
        elif r < 0.53:
            s = s + sep + sep
    return s


def gen_suffix_trap(rng):
    """duplicate names disallowed and a node whose path string ends with the path to be added
    (root a, a/xa/b present, a/b requested): the comparison must be on the full path"""
    r = rng.choice(["a", "b", "ab"])
    mid = rng.choice(["x", "y", "xx", "a"]) + r
    leaf = rng.choice([n for n in ["b", "c", "k", "xa"] if n not in (r, mid)])
    sep = rng.choice(ALLSEPS)
    dup = rng.random() < 0.2
    deep = rng.random() < 0.4
    trap = [r, mid, "m", leaf] if deep else [r, mid, leaf]
    want = [r, "m", leaf] if deep and rng.random() < 0.5 else [r, leaf]
    family = rng.choice(["new", "add"])
    case = {"family": family, "sep": sep, "dup": dup, "tsep": "/", "tree": [], "start": 0,
            "kinds": list(FAMILIES[family]), "stratum": f"{family}/suffixtrap/affix"}
    if family == "new":
        rows = [[render(rng, trap, sep), gen_attrs(rng, False, 0.3)], [render(rng, want, sep), gen_attrs(rng, False, 0.3)]]
        if rng.random() < 0.4:
            rows.insert(rng.randint(0, 1), [render(rng, [r, "q"], sep), []])
    else:
        case["tree"] = [[i + 1, n, []] for i, n in enumerate(trap)]
        case["tsep"] = rng.choice([sep, "/", "::", "->"])
        rows = [[render(rng, want, sep), gen_attrs(rng, False, 0.3)]]
        if rng.random() < 0.4:
            rows.append([render(rng, [r, "q"], sep), []])
    case["rows"] = rows
    return case


def gen_opt(rng, case):
    """how the arguments are handed over: node class, container type, frame layout, index labels, double call"""
    fam = case["family"]
    opt = {}
    if rng.random() < 0.3:
        opt["cls"] = rng.choice(["sub", "sub_eq"])
    if rng.random() < 0.3:
        opt["container"] = "tuple"
    used = {k for _, a in case.get("rows", []) for k, _v in a}
    if rng.random() < 0.4:
        cand = [c for c in (["node name", "n", "0", "names"] if fam == "name" else ["path col", "p", "0", "pat"])
                if c not in used]
        if cand:
            opt["pcol"] = rng.choice(cand)
    if rng.random() < 0.3:
        opt["nan"] = True          # nulls handed over as float('nan') where no frame is involved
    if any(isinstance(v, str) and v.startswith(PYV) for _, a in case.get("rows", []) for _k, v in a):
        # list / dict / float values: only the entry points that take plain Python values
        case["kinds"] = [k for k in case["kinds"] if k in ("KList", "KDict", "KAddPath", "KAddDict", "KNameDict")]
    if rng.random() < 0.3:
        opt["pcol_pos"] = "last"
    if rng.random() < 0.3:
        opt["explicit_cols"] = True
        opt["rev_cols"] = rng.random() < 0.5
        opt["extra_col"] = rng.random() < 0.5
    opt["index"] = rng.choice(["range", "range", "range", "repeat", "str"])
    opt["omit_empty_attrs"] = rng.random() < 0.5
    if fam in ("add", "name") and len(case["rows"]) >= 2 and rng.random() < 0.2:
        opt["split"] = rng.randint(1, len(case["rows"]) - 1)
    case["opt"] = opt
    return case


def gen_nodup_deep(rng):
    """duplicate names disallowed, paths of depth >= 4, input separator different from the tree's own, and
    (sometimes) a name repeated deep below an intermediate node that the same path creates"""
    pool = NAME_POOLS["distinct"]
    names = pool[:]
    rng.shuffle(names)
    root = names.pop()
    sep = rng.choice(ALLSEPS)
    family = rng.choice(["new", "add", "add"])
    paths = []
    for _ in range(rng.randint(1, 3)):
        depth = rng.randint(3, 6)
        start = rng.choice(paths)[: rng.randint(1, 3)] if paths and rng.random() < 0.5 else [root]
        p = list(start)
        while len(p) < depth + 1 and names:
            p.append(names.pop())
        paths.append(p)
    stratum = f"{family}/nodupdeep/distinct"
    if rng.random() < 0.45:
        # repeat a name that exists elsewhere (or earlier in the same path) at depth >= 3
        victim = rng.choice(paths)
        donor = rng.choice(paths)
        dup_name = rng.choice(donor[1:]) if len(donor) > 1 else donor[0]
        extra = victim[: rng.randint(1, len(victim) - 1)] + ["q" + str(len(paths)), "w" + str(len(paths)), dup_name]
        paths.insert(rng.randint(0, len(paths)), extra)
        stratum += "/repeat"
    case = {"family": family, "sep": sep, "dup": False, "tsep": "/", "tree": [], "start": 0,
            "kinds": list(FAMILIES[family]), "stratum": stratum}
    if family == "add":
        keep = [[root]]
        base = rng.choice(paths)
        for k in range(2, rng.randint(2, len(base))):
            keep.append(base[:k])
        case["tree"] = [[len(p), p[-1], gen_attrs(rng, False, 0.3)] for p in keep]
        case["tsep"] = rng.choice([s for s in ALLSEPS if s != sep])
        case["start"] = rng.randrange(len(keep))
    case["rows"] = [[render(rng, p, sep), gen_attrs(rng, False, 0.4)] for p in paths]
    return case


class _Shadow:
    """the set of name paths of one tree, to pick valid targets for the edits of a history"""

    def __init__(self, paths):
        self.paths = [tuple(p) for p in paths]

    def add(self, p):
        for k in range(1, len(p) + 1):
            if tuple(p[:k]) not in self.paths:
                self.paths.append(tuple(p[:k]))

    def below(self, p):
        p = tuple(p)
        return [q for q in self.paths if q[:len(p)] == p]

    def delete(self, p):
        gone = set(self.below(p))
        self.paths = [q for q in self.paths if q not in gone]

    def move(self, src, dst):
        src, dst = tuple(src), tuple(dst)
        new = dst + (src[-1],)
        self.paths = [(new + q[len(src):]) if q[:len(src)] == src else q for q in self.paths]

    def can_move(self, src, dst):
        src, dst = tuple(src), tuple(dst)
        return (len(src) > 1 and dst in self.paths and dst[:len(src)] != src and dst != src[:-1]
                and (dst + (src[-1],)) not in self.paths)


def gen_history(rng):
    """one or two roots; add_path_to_tree calls interleaved with del parent[name] / node.parent = other /
    node.sort(); in particular: add a path, detach or re-parent one of its prefix nodes, add a path sharing
    that prefix again; the same paths added to two roots alternately"""
    pool_name = rng.choice(["distinct", "distinct", "affix", "repeated", "sepish"])
    pool = NAME_POOLS[pool_name]
    nodes = gen_shape(rng, rng.choice(["deep", "mixed", "wide"]), pool, rng.choice([6, 8, 10]))
    names = sorted(set(pool))          # tails of later adds are drawn from the whole pool
    sep = pick_sep(rng, names)
    dup = True
    root = nodes[0]
    keep = [root]
    for p in nodes[1:]:
        if p[:-1] in keep and rng.random() < 0.5:
            keep.append(p)
    pre = _preorder(keep)
    case = {"family": "seq", "sep": sep, "dup": dup, "tsep": pick_tsep(rng, names, dup, sep),
            "tree": [[len(p), p[-1], gen_attrs(rng, False, 0.3)] for p in pre], "start": 0, "rows": [], "kinds": [],
            "tree2": [], "stratum": f"seq/{pool_name}"}
    shadows = [_Shadow(pre)]
    if rng.random() < 0.4:
        r2 = root[0] if rng.random() < 0.6 else rng.choice(pool)
        case["tree2"] = [[1, r2, []]]
        shadows.append(_Shadow([[r2]]))
        case["stratum"] += "/two"
    ops = []
    last = None           # (tree, path) of the last add
    n_ops = rng.randint(4, 8)
    budget = 60
    while len(ops) < n_ops and budget > 0:
        budget -= 1
        ti = rng.randrange(len(shadows))
        sh = shadows[ti]
        rname = sh.paths[0][0]
        r = rng.random()
        if last is not None and last[0] == ti and r < 0.45 and len(last[1]) >= 2:
            # edit a prefix node of the path just added, then add below the same prefix again
            k = rng.randint(2, len(last[1]))
            pref = list(last[1][:k])
            if tuple(pref) in sh.paths:
                dsts = [list(q) for q in sh.paths if sh.can_move(pref, q)]
                if dsts and rng.random() < 0.5:
                    dst = rng.choice(dsts)
                    ops.append(["move", ti, pref, dst])
                    sh.move(pref, dst)
                else:
                    ops.append(["del", ti, pref])
                    sh.delete(pref)
                tail = [rng.choice(pool) for _ in range(rng.randint(0, 2))]
                p = pref + tail
                ops.append(["add", ti, render(rng, p, sep), gen_attrs(rng, False, 0.4)])
                sh.add(p)
                last = (ti, p)
                continue
        if r < 0.7 or last is None:
            cands = [p for p in nodes if len(p) >= 2]
            p = list(rng.choice(cands)) if cands else list(root) + [rng.choice(pool)]
            p = [rname] + p[1:]
            if last is not None and rng.random() < 0.3:
                p = [rname] + list(last[1])[1:]          # the same path again (on this or the other root)
            ops.append(["add", ti, render(rng, p, sep), gen_attrs(rng, False, 0.4)])
            sh.add(p)
            last = (ti, p)
        elif r < 0.8:
            cands = [list(q) for q in sh.paths if len(q) >= 2]
            if cands:
                q = rng.choice(cands)
                ops.append(["del", ti, q])
                sh.delete(q)
        elif r < 0.9:
            pairs = [(list(a), list(b)) for a in sh.paths for b in sh.paths if sh.can_move(a, b)]
            if pairs:
                a, b = rng.choice(pairs)
                ops.append(["move", ti, a, b])
                sh.move(a, b)
        else:
            ops.append(["sort", ti, list(rng.choice(sh.paths))])
    case["ops"] = ops
    return case


def gen_case(rng, family=None):
    if family is None and rng.random() < 0.08:
        c = gen_history(rng)
        c["opt"] = {"omit_empty_attrs": rng.random() < 0.5, "nan": rng.random() < 0.3}
        if rng.random() < 0.3:
            c["opt"]["cls"] = rng.choice(["sub", "sub_eq"])
        return c
    return gen_opt(rng, _gen_case(rng, family))


def _gen_case(rng, family=None):
    if family is None and rng.random() < 0.04:
        return gen_suffix_trap(rng)
    if family is None and rng.random() < 0.06:
        return gen_nodup_deep(rng)
    if family is None and rng.random() < 0.03:
        return gen_k3(rng)
    family = family or rng.choice(["new", "new", "add", "add", "add", "name"])
    pool_name = rng.choice(list(NAME_POOLS))
    pool = NAME_POOLS[pool_name]
    shape = rng.choice(SHAPES)
    nodes = gen_shape(rng, shape, pool, rng.choice([4, 6, 8, 10, 12]))
    names = sorted({n for p in nodes for n in p})
    sep = pick_sep(rng, names)
    dup = rng.random() < 0.6
    allow_name = rng.random() < 0.08
    odd = rng.choice(["", "", "odd", "affix", "affix"]) + ("+rich" if rng.random() < 0.12 else "")
    case = {"family": family, "sep": sep, "dup": dup, "tsep": "/", "tree": [], "start": 0,
            "kinds": list(FAMILIES[family]), "stratum": f"{family}/{shape}/{pool_name}"}

    if family == "name":
        case["tree"] = [[len(p), p[-1], gen_attrs(rng, False, 0.3)] for p in _preorder(nodes)]
        case["tsep"] = rng.choice(ALLSEPS)
        case["start"] = rng.randrange(len(nodes)) if rng.random() < 0.4 else 0
        rows = []
        cand = names + ["zq"]
        rng.shuffle(cand)
        for nm in cand[: rng.randint(0 if rng.random() < 0.06 else 1, 5)]:
            rows.append([nm, gen_attrs(rng, allow_name, 0.85, odd)])
        if rows and rng.random() < 0.3:
            r = rng.choice(rows)
            rows.insert(rng.randint(0, len(rows)),
                        [r[0], [list(kv) for kv in r[1]] if rng.random() < 0.6 else gen_attrs(rng, False, 0.9)])
        case["rows"] = rows
        return case

    # rows: leaves, some inner nodes, some repetitions, in an order that revisits branches
    leaves = [p for p in nodes if not any(q[:len(p)] == p and len(q) > len(p) for q in nodes)]
    chosen = list(leaves) + [p for p in nodes if p not in leaves and rng.random() < 0.35]
    if rng.random() < 0.3:
        chosen = [p for p in chosen if rng.random() < 0.7] or chosen[:1]
    if rng.random() < 0.7:
        rng.shuffle(chosen)
    rows = []
    for p in chosen:
        rows.append([render(rng, p, sep), gen_attrs(rng, allow_name, 0.55, odd)])
    # repetitions of a path (other spelling of the leading/trailing separator); mostly with the same
    # attributes (frames accept those), sometimes with different ones (frames must refuse, dicts overwrite)
    for _ in range(rng.choice([0, 0, 0, 1, 2])):
        k = rng.randrange(len(rows))
        attrs = [list(kv) for kv in rows[k][1]] if rng.random() < 0.65 else gen_attrs(rng, allow_name, 0.55, odd)
        at = rng.randint(0, len(rows))
        rows.insert(at, [render(rng, chosen[k], sep), attrs])
        chosen.insert(at, chosen[k])
    # malformed stream
    r = rng.random()
    if r < 0.04 and len(rows) > 0:
        k = rng.randrange(len(rows))
        other = rng.choice([n for n in pool if n != nodes[0][0]] or ["zz"])
        rows[k][0] = render(rng, [other] + chosen[min(k, len(chosen) - 1)][1:], sep)
        case["stratum"] += "/wrongroot"
    elif r < 0.07 and len(rows) > 0:
        k = rng.randrange(len(rows))
        p = chosen[min(k, len(chosen) - 1)]
        if len(p) >= 2:
            j = rng.randint(1, len(p) - 1)
            rows[k][0] = sep.join(p[:j]) + sep + sep + sep.join(p[j:])
        else:
            rows[k][0] = rng.choice(["", sep, sep + sep])
        case["stratum"] += "/emptycomp"
    elif r < 0.085:
        rows = []
        case["stratum"] += "/norows"
    case["rows"] = rows

    if family == "add":
        if any(k == "name" for _, a in rows for k, _v in a):
            # add_path_to_tree / add_dict_to_tree_by_path pass a "name" attribute on unfiltered (it renames
            # the node): outside the modelled domain, only the filtering entry points get such rows
            case["kinds"] = ["KAddFrame", "KAddPolars"]
        keep = [nodes[0]]
        for p in nodes[1:]:
            if p[:-1] in keep and rng.random() < 0.55:
                keep.append(p)
        if rng.random() < 0.3:
            # existing children in an order different from the creation order
            rest = keep[1:]
            rng.shuffle(rest)
            rest.sort(key=len)
            keep = [keep[0]] + rest
        pre = _preorder(keep)
        case["tree"] = [[len(p), p[-1], gen_attrs(rng, False, 0.3)] for p in pre]
        case["tsep"] = pick_tsep(rng, names, dup, sep)
        case["start"] = rng.randrange(len(pre)) if rng.random() < 0.4 else 0
    return case


def _preorder(paths):
    """pre-order of a prefix-closed path list, children in list order"""
    out = []

    def walk(p):
        out.append(p)
        for q in paths:
            if len(q) == len(p) + 1 and q[:-1] == p:
                walk(q)

    walk(paths[0])
    return out


def corpus(prop):
    def new(rows, sep="/", dup=True, kinds=None):
        return {"family": "new", "sep": sep, "dup": dup, "tsep": "/", "tree": [], "start": 0,
                "rows": [[p, a] for p, a in rows], "kinds": kinds or list(FAMILIES["new"]), "stratum": "corpus"}

    def add(tree, rows, sep="/", dup=True, tsep="/", start=0, kinds=None):
        return {"family": "add", "sep": sep, "dup": dup, "tsep": tsep, "tree": tree, "start": start,
                "rows": [[p, a] for p, a in rows], "kinds": kinds or list(FAMILIES["add"]), "stratum": "corpus"}

    out = []
    # F4 (fixed): a/b on a tree holding a/xa/b with duplicate names disallowed must be refused
    out.append(("F4", add([[1, "a", []], [2, "xa", []], [3, "b", []]], [["a/b", []]], dup=False)))
    out.append(("F4-new", new([["a/xa/b", []], ["a/b", []]], dup=False)))
    # the fixture of the test-suite, leaf paths in an order that revisits the first branch
    out.append(("fixture", new([["a/b/d", [["x", 1]]], ["a/c/f", []], ["a/b/e/g", [["x", 0]]], ["a/b/e/h", [["s", ""]]],
                                ["a", [["x", 90]]], ["/a/c/", [["x", None]]]])))
    # uncle with the name of a deeper component
    out.append(("uncle", add([[1, "a", []], [2, "b", []], [3, "c", []], [4, "b", []], [4, "c", []]],
                             [["a/b/c/b/c/b", [["x", 0]]], ["a/b/c/c/c", []]])))
    # falsy values in frames
    out.append(("falsy", new([["a/b", [["x", 0], ["s", ""], ["b", False]]], ["a/c", [["x", None], ["s", None], ["b", None]]]])))
    out.append(("wrongroot", add([[1, "a", [["x", 1]]], [2, "b", []]], [["b/c", []], ["a/d", []]])))
    # K3: multi-character separator, a name ending in a character of the separator
    out.append(("K3-C05", new([["r->a-", []], ["r->b", []]], sep="->")))
    return out


def generate(prop, rng, tier):
    count = {"quick": 1300, "thorough": 20000, "search": 4000}[tier]
    for _ in range(count):
        c = gen_case(rng)
        yield c["stratum"], c


# ---------------------------------------------------------------------------------------------


def shrink_candidates(prop, case):
    rows = case["rows"]
    ops = case.get("ops") or []
    if ops:
        # histories: later edits refer to the tree as left by the earlier ones, so only drop from the end
        for k in range(len(ops) - 1, 0, -1):
            c = dict(case)
            c["ops"] = ops[:k]
            yield c
        for k, op in enumerate(ops):
            if op[0] == "add" and op[3]:
                c = dict(case)
                c["ops"] = ops[:k] + [[op[0], op[1], op[2], []]] + ops[k + 1:]
                yield c
        return
    for key in sorted(case.get("opt", {})):
        if case["opt"][key] not in (False, "range", None):
            c = dict(case)
            c["opt"] = {k: v for k, v in case["opt"].items() if k != key}
            yield c
    if len(case["kinds"]) > 1:
        for k in case["kinds"]:
            c = dict(case)
            c["kinds"] = [k]
            yield c
    for k in range(len(rows)):
        c = dict(case)
        c["rows"] = rows[:k] + rows[k + 1:]
        yield c
    for k, (p, a) in enumerate(rows):
        if a:
            c = dict(case)
            c["rows"] = rows[:k] + [[p, []]] + rows[k + 1:]
            yield c
            for j in range(len(a)):
                c = dict(case)
                c["rows"] = rows[:k] + [[p, a[:j] + a[j + 1:]]] + rows[k + 1:]
                yield c
    tree = case["tree"]
    for k in range(len(tree) - 1, 0, -1):
        leaf = k == len(tree) - 1 or tree[k + 1][0] <= tree[k][0]
        if leaf and case["start"] != k:
            c = dict(case)
            c["tree"] = tree[:k] + tree[k + 1:]
            if case["start"] > k:
                c["start"] = case["start"] - 1
            yield c
    for k, (d, n, a) in enumerate(tree):
        if a:
            c = dict(case)
            c["tree"] = tree[:k] + [[d, n, []]] + tree[k + 1:]
            yield c
    if case["start"]:
        c = dict(case)
        c["start"] = 0
        yield c


def size(case):
    return (12 * len(case.get("ops") or []) + 10 * len(case["rows"]) + 10 * len(case["tree"]) + 3 * len(case["kinds"])
            + sum(len(a) for _, a in case["rows"]) + sum(len(a) for _, _, a in case["tree"])
            + sum(len(p) for p, _ in case["rows"]))


def nontrivial(prop, case, obs):
    # some entry point accepted the input and the resulting tree has >= 3 nodes; or >= 1 row was refused
    if case.get("ops"):
        return sum(1 for o in obs.get("adds", []) if o["code"] == 0) >= 2
    acc = [o for o in obs["obs"] if o["code"] == 0 and len(o["tree"]) >= 3]
    rej = [o for o in obs["obs"] if o["code"] != 0]
    return bool(case["rows"]) and (bool(acc) or bool(rej))


def sample(prop, case, obs):
    if case.get("ops"):
        return {"family": "seq", "sep": case["sep"], "duplicate_name_allowed": case["dup"], "tree": case["tree"],
                "tree2": case.get("tree2"), "ops": case["ops"], "outcomes": [o["code"] for o in obs.get("adds", [])]}
    return {"family": case["family"], "sep": case["sep"], "duplicate_name_allowed": case["dup"],
            "existing_tree": case["tree"], "rows": case["rows"],
            "outcomes": {o["kind"]: o["code"] for o in obs["obs"]},
            "result_paths": [[d, n] for d, _, n, _ in (obs["obs"][0]["tree"] if obs["obs"] else [])]}


def rule(prop):
    return ("row lists derived from random name tries (<= 12 nodes; shapes wide/deep/mixed/path/star; name pools "
            "distinct/repeated/affix/special/sepish (names starting or ending with '/' or a character of another separator "
            "of the pool: 'usr/', '/etc', 'a|', '-y', ..., the separator in use free of all names); separators: 5 single-character and 5 multi-character ('->', '::', '=>', '//', '-|-'; ~40% of cases, also for the existing tree's own separator), chosen with no character in common with any name, optional (double) whole leading/trailing separator; a K3-territory stratum (multi-character separator and a name starting/ending with one of its characters); "
            "attribute dicts with nulls, falsy values 0/''/False and keys that are not identifiers ('age group', 'unit-cost', "
            "'_flag', 'class', '2024'); malformed: wrong root, empty component, no rows; targeted strata: suffix trap "
            "(a/xa/b + a/b, duplicates disallowed), nodup-deep (duplicates disallowed, depth >= 4, input separator != tree "
            "separator, name repeated below a freshly created intermediate)) fed to all entry points of a family (new: "
            "list/dict/dataframe/polars_to_tree; add: add_path_to_tree row by row + add_{dict,dataframe,polars}_to_tree_by_path "
            "on a pre-existing tree, start node anywhere in it; name: add_*_to_tree_by_name; seq (8%): histories on one or two "
            "roots (second root often with the same name): add_path_to_tree calls interleaved with del parent[name], "
            "node.parent = other, node.sort(), in particular add - detach/re-parent a prefix node of that path - add below the same "
            "prefix again, and the same path added to both roots alternately; after every add the tree, the returned node and "
            "prop_C05 (paths = before U prefixes, returned node at the path in the tree as it is now) are checked). Attribute "
            "names per case: plain (x, s, y, b), non-identifiers, or affixes/superstrings of the reserved names and column options "
            "(n, a, m, e, na, am, me, nam, ame, names, name_en, path, pat, depth, shift, col, node); values None / float('nan') / 0 / '' / "
            "False / ints / strs and, for the entry points taking Python values, lists, dicts, tuples and non-integral floats. "
            "Hand-over options per case: "
            "Node, a user subclass, or a user subclass with value semantics (__eq__/__hash__ by name) (node_type / class of the "
            "existing tree; every node of the result must have that class), "
            "list or tuple of paths, path/name column named and placed differently, explicit path_col/name_col/attribute_cols "
            "(reversed order, plus an unlisted column that must not show), pandas index labels unique / repeated / strings, "
            "node_attrs omitted when empty, the same tree extended by two calls (rows split in two batches). Observed per entry "
            "point: accept/reject, root.sep, every node in pre-order (depth, identity tag, name, complete instance dict minus the "
            "four fields of Node itself, attrs as a map), parent/children links consistent, returned node(s); after a refused call "
            "on an existing tree the tree is compared as well; the caller's arguments must be unchanged by the call and are "
            "mutated afterwards (aliasing). non-trivial = non-empty row list and (an accepted call yielding >= 3 nodes or a "
            "refused call); distinct by canonical JSON hash")


def _components(path, sep):
    return path.split(sep) if sep else [path]


def matches_finding(prop, entry, case, obs, flags):
    """K3-C05: multi-character separator and a path component that starts or ends with one of the
    separator's characters (lstrip/rstrip treat `sep` as a character set); the model reproduces the
    implementation's behaviour (no disagreement), only the property predicate is false."""
    if entry.get("id") != "K3-C05":
        return False
    sep = case["sep"]
    if len(sep) < 2 or flags != 2:
        return False
    chars = set(sep)
    for p, _ in case["rows"]:
        comps = [c for c in _components(p, sep)]
        # only the outermost characters of the whole string are exposed to lstrip/rstrip
        while comps and comps[0] == "":
            comps = comps[1:]
        while comps and comps[-1] == "":
            comps = comps[:-1]
        if comps and (comps[0][:1] in chars and comps[0][:1] != "" or comps[-1][-1:] in chars and comps[-1][-1:] != ""):
            return True
    return False


def explain(prop, case, obs, flags):
    from ._base import explain as base
    return base(prop, case, obs, flags)


def trusted_base(prop):
    return COMMON_TB + [
        "pandas / polars internals (frame construction, str.lstrip/rstrip, drop_duplicates/unique, to_dict/to_dicts) "
        "are glue: modelled as operations on the row list and exercised only by this correspondence",
        "harness conversion of one row list into list / dict / DataFrame arguments (dict_of_rows, frame_of_rows in Algo/Construct.v)",
    ]


def partial_clauses(prop):
    return [
        "C05_model_satisfies_prop_{list,dict,add_path,add_dict}[_multi] (prop_C05 k i (run k i) = true, the predicate "
        "evaluated on every implementation output, accepted and refused inputs, either duplicate_name_allowed): proved for "
        "separators of ANY positive length under the guard: every path string satisfies PG (the specification's and the code's "
        "reading agree) - true of every string for a one-character separator (C05_parse_guard_single) and of every `rendered` "
        "string (names non-empty and free of separator characters, joined by the separator, whole leading/trailing "
        "separators; C05_parse_guard_rendered) for longer ones; existing tree's attribute dicts have distinct keys; with "
        "duplicates disallowed nodup_guard: start names distinct and no character of the separator the tree works with in any "
        "name or path component (for one-character separators this is derived from prop_C05's own guards).  Without the "
        "guard the statement is false for separators of length >= 2 (known finding K3-C05, Example "
        "C05_multichar_sep_refuted).  Not covered by the umbrella theorems: the DataFrame/polars entry points (their clauses: "
        "C05_frame_to_tree_closure, C05_attrs_frame, C05_attrs_frame_nulls, C05_attrs_rows_exact, C05_accept_verdict; "
        "duplicate-attribute detection and the frame glue are compared by the correspondence only) and the boolean "
        "prop_byname (by-name entry points: Prop-level C05_by_name_exact / _dict / _frame / _frame_rows)",
        "C05_no_dup_accept_iff[_multi] / C05_no_dup_names[_multi], direction 'accepted => same as with duplicates allowed': "
        "under the guard that no character of the tree's separator (any positive length) occurs in a node name or path "
        "component (the code compares joined path strings); the converse (C05_no_dup_accepts_distinct) and "
        "C05_no_dup_distinct are unguarded",
        "C05_sep_independent[_multi] / C05_parse_agrees[_multi] / C05_add_path_paths_multi: names non-empty and free of the "
        "separator's characters (sgood); C05_leading_trailing_sep[_multi] needs no guard on names.  prop_C05's own guard for "
        "duplicates disallowed tests substring-freeness (contains), which is weaker than character-freeness for separators "
        "of length >= 2; the theorems assume the stronger nodup_guard there",
        # deliberately accepted blind spots of the correspondence (leniency audit)
        "BLIND SPOT exception class: only accepted/refused is compared (the property names no class); which exception a "
        "refusal raises can change unnoticed",
        "BLIND SPOT value canonicalisation: attribute values are folded numpy->python, integral float->int, NaN/None->null "
        "(pandas turns an int column with nulls into floats); a change of an attribute's numeric type, or NaN versus None, is "
        "invisible; attribute order inside a node is not compared (maps); only None/int/str/bool values are generated (no "
        "non-integral floats, containers, float('nan') given directly)",
        "BLIND SPOT prop_C05 is vacuous (model comparison still full) outside its guards: reserved attribute keys (name, parent, "
        "children, sep, parents) on the unfiltered entry points are not generated at all; duplicates disallowed with names "
        "containing the tree's own separator or a start tree with repeated names; multi-character separators only as the one "
        "K3 witness; the empty separator never",
        "BLIND SPOT per-entry-point Unmodelled is skipped silently: add_polars_to_tree_by_name on a frame without any "
        "attribute column (polars raises inside rows_by_key)",
        "BLIND SPOT double calls (same tree extended twice) are compared with the model only, prop_C05 is evaluated on single "
        "calls; after a refused call the returned-node list is not compared",
        "BLIND SPOT argument types not varied: generators / other iterables of paths (len() is required), dict subclasses "
        "(OrderedDict), non-str keys or paths, frames with non-string path cells or a null path, MultiIndex / categorical / "
        "object-mixed columns, polars LazyFrame; node_attrs values that are mutable objects",
        "BLIND SPOT entry points of construct.py outside the property's list are never called here: str_to_tree, "
        "nested_dict_to_tree, newick_to_tree, *_by_relation; BinaryNode / DAGNode trees as the tree being extended",
        "BLIND SPOT user subclasses whose instances can be falsy (__len__ = number of children / __bool__) are NOT generated: "
        "the unchanged tree itself fails there (add_path_to_tree / find_children test `if not node` / `if _node`, so an "
        "existing leaf is taken for missing and a duplicate sibling is refused with TreeError) - reported as a possible finding",
        "histories: C05_history_adds_exact proves, for EVERY history of add_path_to_tree calls and the modelled edits (del "
        "parent[name], re-parent, sort) on one tree with duplicates allowed, that each accepted add is exact against the tree as "
        "it is then (paths = before U prefixes, returned node at the path, node objects reused / new).  Not a theorem: the full "
        "prop_C05 per add of a history (needs the guards - distinct attribute keys, non-empty names - carried through the edits), "
        "duplicates disallowed inside histories, two-root histories (the model is one pure function per tree, the second root "
        "is exercised by the correspondence only)",
        "umbrella theorems still missing for the DataFrame/polars kinds (KFrame, KPolars, KAddFrame, KAddPolars) and for the "
        "boolean prop_byname (KNameDict, KNameFrame, KNamePolars): attempted in the time given, not finished - the frame kinds "
        "need has_duplicate_attribute on stripped strings = conflict on parsed paths, strip idempotence and the root-kwargs "
        "re-application argument; prop_byname needs a position-indexed lock-step of all_pos / pre / pre of the result and, for "
        "the dict kind, distinct keys.  What is proved for them: C05_frame_to_tree_closure, C05_attrs_frame, "
        "C05_attrs_frame_nulls, C05_attrs_rows_exact, C05_accept_verdict; C05_by_name_exact / _dict / _frame / _frame_rows",
        "BLIND SPOT histories use duplicate_name_allowed=True only and the edits del / re-parent / sort (no shift_nodes / "
        "copy_nodes, no renaming of nodes, no edits of the root's separator between calls)",
        "BLIND SPOT assertions switched off (BIGTREE_CONF_ASSERTIONS) and trees whose sibling names are not unique are not "
        "exercised",
    ]


def assumptions(prop):
    return [
        "attribute keys are not constructor parameters / properties of Node (name, parent, children, sep, parents) where "
        "the code passes them on unfiltered (add_path_to_tree, add_dict_to_tree_by_path)",
        "frames handed to the DataFrame/polars entry points have homogeneous attribute columns (int / str / bool with nulls)",
        "polars add_polars_to_tree_by_name is not exercised on a frame without any attribute column (polars' rows_by_key "
        "raises inside the library there)",
    ]
