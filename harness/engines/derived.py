"""Engine `derived`: the read-only node queries of BaseNode / Node (ancestors, descendants, leaves,
siblings, left/right sibling, node_path, root, is_root, is_leaf, depth, max_depth, diameter, go_to)
and BinaryNode.is_leaf, observed on every node (every ordered pair of nodes) of generated trees (C12).

A case is plain JSON:
  {"kind": "tree", "cls": "Node"|"BaseNode"|"Sub"|"Binary"|"Falsy*"|"Eq*", "names": "distinct"|"repeated", "build": [...],
   "kids": [[child tags] per tag], "root": tag, "other": {"kids": ..., "root": tag} | None,
   "gotos": [[self_tag, ["same", tag] | ["other", tag] | ["junk", kind]], ...]}
  {"kind": "binary", "slots": [[left tag | None, right tag | None] per tag], "root": tag, "build": [...],
   "ext": "none" | "diameter" | "siblings"}     (ext: an inherited BaseNode query also asked of every node)
Tags are creation numbers of the Python objects (tag i = the i-th object created)."""
import itertools

from ..core import cbool, clist, copt, cstr
from ._base import *  # noqa
from ._base import exn_code, COMMON_TB

SERVES = ["C12"]
COQ_TARGETS = ["theories/Corr/DerivedCorr.vo"]
CASES_PER_FILE = 120


def coq_header(prop):
    return "From BT Require Import Base.Prelude Base.Rose Algo.Derived Corr.DerivedCorr."


def coq_case_type(prop):
    return "dcase"


def coq_check(prop):
    return "check_C12"


# ---------------------------------------------------------------------------------------------
# pure helpers on the case representation (no bigtree involved)


def preorder(kids, root):
    out = []

    def go(x):
        out.append(x)
        for c in kids[x]:
            go(c)

    go(root)
    return out


def parent_map(kids):
    par = {}
    for p, cs in enumerate(kids):
        for c in cs:
            par[c] = p
    return par


def depth_of(kids, root):
    d = {root: 1}
    for x in preorder(kids, root):
        for c in kids[x]:
            d[c] = d[x] + 1
    return d


def _name(case, tag, child_index):
    nl = case.get("namelist")
    if nl is not None:                 # value-equality classes: explicit names of the first tree; the second tree's differ
        return nl[tag] if tag < len(nl) else "z" + str(tag)
    if case.get("names") == "repeated":
        return "abcdefghijklmnop"[child_index]
    return "abcdefghijklmnopqrstuvwxyz"[tag % 26] + ("" if tag < 26 else str(tag // 26))


def _child_index(kids):
    ci = {}
    for cs in kids:
        for i, c in enumerate(cs):
            ci[c] = i
    return ci


# ---------------------------------------------------------------------------------------------
# implementation side


class Junk:
    """a Python object that is not a node"""


def _junk(kind):
    if kind == "none":
        return None
    if kind == "str":
        return "a"
    if kind == "int":
        return 0
    if kind == "dag":
        from bigtree.node.dagnode import DAGNode
        return DAGNode("a")
    if kind == "list":
        return []
    return Junk()


_SUB = {}


def _cls(name):
    from bigtree.node.basenode import BaseNode
    from bigtree.node.node import Node
    if name == "BaseNode":
        return BaseNode
    if name == "Node":
        return Node
    if "Sub" not in _SUB:
        class SubNode(Node):            # a user subclass with an extra attribute
            def __init__(self, name="", **kw):
                super().__init__(name, **kw)
                self.extra = 1
        _SUB["Sub"] = SubNode
    return _SUB["Sub"]


SPECIAL = ("FalsyNode", "FalsyBase", "FalsyBinary", "EqNode", "EqBase", "EqBinary")


def is_binary_cls(c):
    return c in ("Binary", "FalsyBinary", "EqBinary")


def _special_cls(name, flavour):
    """legal user subclasses: instances that can be falsy (a bag: len() = number of items kept in the node, or an
    explicit __bool__), and value semantics (__eq__/__hash__ by name: distinct nodes can compare equal)"""
    key = (name, flavour)
    if key in _SUB:
        return _SUB[key]
    from bigtree.node.basenode import BaseNode
    from bigtree.node.binarynode import BinaryNode
    from bigtree.node.node import Node
    base = {"Node": Node, "Base": BaseNode, "Binary": BinaryNode}[name.replace("Falsy", "").replace("Eq", "")]
    if name.startswith("Falsy"):
        if flavour == "bool":
            class Falsy(base):
                def __bool__(self):
                    return bool(self.items)
        else:
            class Falsy(base):
                def __len__(self):
                    return len(self.items)
        c = Falsy
    else:
        class ByName(base):
            def __eq__(self, other):
                return isinstance(other, ByName) and other.name == self.name

            def __hash__(self):
                return hash(self.name)
        c = ByName
    _SUB[key] = c
    return c


def _make_special(case, kids, n_total_before, falsy):
    ci = _child_index(kids)
    c = _special_cls(case["cls"], case.get("flavour", "len"))
    objs = []
    for t in range(len(kids)):
        nm = _name(case, t + n_total_before, ci.get(t, 0))
        if case["cls"].endswith("Base"):
            o = c()
            o.name = nm
        else:
            o = c(nm)
        if case["cls"].startswith("Falsy"):
            o.items = [] if (falsy and falsy[t]) else ["item"]
        objs.append(o)
    return objs


def _make_objs(case, kids, n_total_before=0, falsy=None):
    """one object per tag, in tag order"""
    ci = _child_index(kids)
    n = len(kids)
    if case["cls"] in SPECIAL:
        return _make_special(case, kids, n_total_before, falsy)
    if case["cls"] == "Binary":
        from bigtree.node.binarynode import BinaryNode
        return [BinaryNode(_name(case, t + n_total_before, ci.get(t, 0))) for t in range(n)]
    cls = _cls(case["cls"])
    if case["cls"] == "BaseNode":
        return [cls() for _ in range(n)]
    return [cls(_name(case, t + n_total_before, ci.get(t, 0))) for t in range(n)]


def _slots(case, kids, p, sides):
    """BinaryNode: the pair of slots of node p (an only child sits on the side recorded in the case)"""
    cs = kids[p]
    if len(cs) == 2:
        return [cs[0], cs[1]]
    if len(cs) == 1:
        return [cs[0], None] if not (sides and sides[p]) else [None, cs[0]]
    return [None, None]


def _link(case, objs, kids, root, sides=None):
    """link the objects into the given shape with valid operations only"""
    modes = case.get("build") or ["children"]
    for k, p in enumerate(preorder(kids, root)):
        if not kids[p]:
            continue
        mode = modes[k % len(modes)]
        if is_binary_cls(case["cls"]):
            l, r = [None if c is None else objs[c] for c in _slots(case, kids, p, sides)]
            if mode in ("parent", "rshift", "append") and l is not None:
                if r is None:
                    objs[p].left = l
                else:
                    objs[p].left = l
                    objs[p].right = r
            else:
                objs[p].children = [l, r]
        elif mode == "children":
            objs[p].children = [objs[c] for c in kids[p]]
        elif mode == "tuple":
            objs[p].children = tuple(objs[c] for c in kids[p])
        elif mode == "parent":
            for c in kids[p]:
                objs[c].parent = objs[p]
        elif mode == "rshift":
            for c in kids[p]:
                objs[p] >> objs[c]
        elif mode == "append":
            for c in kids[p]:
                objs[p].append(objs[c])
        else:
            objs[p].extend([objs[c] for c in kids[p]])


_QUERIES = ["ancestors", "descendants", "leaves", "siblings", "left_sibling", "right_sibling", "node_path",
            "is_root", "is_leaf", "root", "diameter", "depth", "max_depth"]


def _warm(objs):
    """ask every query of every object and throw the answers away (anything remembered from now on is stale later)"""
    for o in objs:
        for q in _QUERIES:
            v = getattr(o, q)
            if q in ("ancestors", "descendants", "leaves", "siblings", "node_path"):
                list(v)
    if len(objs) >= 2:
        try:
            objs[0].go_to(objs[-1])
        except Exception:
            pass


def _strict_int(x):
    if type(x) is not int:
        raise TypeError("a number query returned %r of type %s" % (x, type(x).__name__))
    return x


def _strict_bool(x):
    if type(x) is not bool:
        raise TypeError("a yes/no query returned %r of type %s" % (x, type(x).__name__))
    return x


def first_principles(kids, root):
    """the answers of the queries that can be undefined, read off the case's own links (used only as stand-ins)"""
    par = parent_map(kids)
    dep = depth_of(kids, root)
    out = {}

    def height(x):
        return 1 + max([height(c) for c in kids[x]], default=0)

    def diam(x):
        hs = sorted((height(c) for c in kids[x]), reverse=True)
        return max([sum(hs[:2])] + [diam(c) for c in kids[x]]) if kids[x] else 0

    for t in preorder(kids, root):
        sub = preorder(kids, t)
        sib = kids[par[t]] if t in par else [t]
        i = sib.index(t)
        out[t] = {"desc": sub[1:], "leaves": [x for x in sub if not kids[x]],
                  "left": sib[i - 1] if i > 0 else None, "right": sib[i + 1] if i + 1 < len(sib) else None,
                  "isleaf": not kids[t], "diam": diam(t), "maxdepth": max(dep.values())}
    return out


def undefined_queries(case):
    """Where the unchanged library's answer depends on the truth value / the equality of node objects, i.e. is not
    defined by the links alone (reported to the coordinator; these answers are not observed):
      falsy instances: preorder_iter tests `if tree` (descendants, leaves, max_depth lose a falsy node and everything
        below it), left/right_sibling test `if self.parent:`, diameter filters `if child`, BinaryNode.is_leaf `if child`;
      value equality: descendants filters `_node != self`, left/right_sibling use children.index(self)
        (go_to pairs whose two root paths hold equal-but-distinct nodes are not generated at all)."""
    cls = case["cls"]
    if cls not in SPECIAL:
        return {}
    kids, root = case["kids"], case["root"]
    par = parent_map(kids)
    pre = preorder(kids, root)
    out = {}
    if cls.startswith("Falsy"):
        F = {t for t, f in enumerate(case["falsy"]) if f}
        for t in pre:
            sub = preorder(kids, t)
            u = set()
            if par.get(t) in F:
                u |= {"left", "right"}
            if F & set(sub):
                u |= {"desc", "leaves"}
            if F & set(sub[1:]):
                u.add("diam")
            if F:
                u.add("maxdepth")
            if is_binary_cls(cls) and F & set(kids[t]):
                u.add("isleaf")
            out[t] = u
    else:
        nm = case["namelist"]
        for t in pre:
            sub = preorder(kids, t)
            u = set()
            if any(nm[d] == nm[t] for d in sub[1:]):
                u.add("desc")
            if any(nm[d] == nm[root] for d in pre[1:]):
                u.add("maxdepth")
            if t in par and any(nm[c] == nm[t] for c in kids[par[t]] if c != t):
                u |= {"left", "right"}
            out[t] = u
    return out


def _run_tree(case):
    kids, root = case["kids"], case["root"]
    n = len(kids)
    sides = case.get("sides")
    objs = _make_objs(case, kids, falsy=case.get("falsy"))
    others = []
    okids = oroot = None
    if case.get("other"):
        okids, oroot = case["other"]["kids"], case["other"]["root"]
        others = _make_objs(case, okids, n_total_before=n, falsy=case["other"].get("falsy"))
    idx = {id(o): t for t, o in enumerate(objs)}
    for t, o in enumerate(others):
        idx[id(o)] = n + t
    history = case.get("history", "fresh")
    if history == "rebuild":
        # all objects first form ONE other tree (pre[i] < i is the parent of object i), every query is asked,
        # then everything is detached again and the shapes of the case are built from the used objects
        allo = objs + others
        pre = case["pre"]
        for i in range(1, len(allo)):
            allo[i].parent = allo[pre[i]]
        _warm(allo)
        for o in reversed(allo):
            o.parent = None
    _link(case, objs, kids, root, sides)
    if others:
        _link(case, others, okids, oroot, case["other"].get("sides"))
    if history == "roundtrip":
        # a subtree is taken out (or hung somewhere else) and put back at its old place
        _warm(objs)
        x = objs[case["rt_node"]]
        par = x.parent
        orig = list(par.children)
        if case.get("rt_to") is not None:
            x.parent = objs[case["rt_to"]]
        else:
            x.parent = None
        _warm(objs)
        par.children = orig

    def tg(x):
        return idx[id(x)]          # KeyError (a harness error) when something that is not one of our nodes comes back

    def tgo(x):
        return None if x is None else tg(x)

    binary = is_binary_cls(case["cls"])
    undefined = undefined_queries(case)      # per node: the queries whose answer the unchanged library leaves undefined
    links = first_principles(kids, root)     # ... and what stands in for them (never observed, never compared)

    def ask(o, t):
        skip = undefined.get(t, ())

        def q(name, f):
            return links[t][name] if name in skip else f()

        def sibs():
            r = list(o.siblings)
            if binary:             # the empty-slot entries are checked by the `binary` cases (slot semantics)
                r = [x for x in r if x is not None]
            return [tg(x) for x in r]

        return {
            "self": t,
            "anc": [tg(x) for x in o.ancestors],
            "desc": q("desc", lambda: [tg(x) for x in o.descendants]),
            "leaves": q("leaves", lambda: [tg(x) for x in o.leaves]),
            "sibs": sibs(),
            "left": q("left", lambda: tgo(o.left_sibling)),
            "right": q("right", lambda: tgo(o.right_sibling)),
            "path": [tg(x) for x in o.node_path],
            "isroot": _strict_bool(o.is_root),
            "isleaf": q("isleaf", lambda: _strict_bool(o.is_leaf)),
            "root": tg(o.root),
            "diam": q("diam", lambda: _strict_int(o.diameter)),
            "depth": _strict_int(o.depth),
            "maxdepth": q("maxdepth", lambda: _strict_int(o.max_depth)),
        }

    nodes = []
    for t in preorder(kids, root):
        first = ask(objs[t], t)
        if ask(objs[t], t) != first:
            raise AssertionError("asking node %d the same queries twice gave different answers" % t)
        nodes.append(first)
    gotos = []
    for s, a in case["gotos"]:
        if a[0] == "same":
            arg = objs[a[1]]
        elif a[0] == "other":
            arg = others[a[1]]
        else:
            arg = _junk(a[1])
        try:
            r = objs[s].go_to(arg)
        except Exception as e:
            gotos.append([exn_code(e), []])
        else:
            gotos.append([0, [tg(x) for x in r]])
    # the queries are read-only: the links are still the ones that were built
    for t in range(n):
        want = _slots(case, kids, t, sides) if binary else list(kids[t])
        got = [None if c is None else tg(c) for c in objs[t].children]
        if got != want:
            raise AssertionError("children of node %d after the queries: %r, built: %r" % (t, got, want))
    return {"nodes": nodes, "gotos": gotos}


def _run_binary(case):
    from bigtree.node.binarynode import BinaryNode
    slots, root = case["slots"], case["root"]
    n = len(slots)
    objs = [BinaryNode(t) for t in range(n)]
    modes = case.get("build") or ["children"]
    order = preorder([[c for c in s if c is not None] for s in slots], root)
    for k, p in enumerate(order):
        l, r = slots[p]
        if l is None and r is None:
            continue
        mode = modes[k % len(modes)]
        lo = None if l is None else objs[l]
        ro = None if r is None else objs[r]
        if mode == "children":
            objs[p].children = [lo, ro]
        elif mode == "leftright":
            if lo is not None:
                objs[p].left = lo
            if ro is not None:
                objs[p].right = ro
        else:                      # "parent": first empty slot, so only usable when the left slot is filled
            if lo is not None:
                lo.parent = objs[p]
                if ro is not None:
                    ro.parent = objs[p]
            else:
                objs[p].children = [lo, ro]
    idx = {id(o): t for t, o in enumerate(objs)}
    ext = case.get("ext", "none")
    out = []
    for t in order:
        o = objs[t]
        x = None
        if ext == "diameter":        # BaseNode.diameter, inherited
            try:
                x = [0, int(o.diameter)]
            except Exception as e:
                x = [exn_code(e), 0]
        elif ext == "siblings":      # BaseNode.siblings, inherited
            x = [None if c is None else idx[id(c)] for c in o.siblings]
        out.append([[None if c is None else idx[id(c)] for c in o.children], bool(o.is_leaf), x])
    return {"bin": out, "order": order}


def run_impl(prop, case):
    if case["kind"] == "binary":
        return _run_binary(case)
    return _run_tree(case)


# ---------------------------------------------------------------------------------------------
# Coq literals


def _ctree(case, kids, root, off=0):
    ci = _child_index(kids)

    def go(x):
        nm = "[]" if case["cls"] == "BaseNode" else cstr(_name(case, x + off, ci.get(x, 0)))
        return f"T (Some {x + off}) {nm} [] {clist(go(c) for c in kids[x])}"

    return go(root)


def _cl(xs):
    return clist(str(int(x)) for x in xs)


def emit(prop, case, obs):
    if case["kind"] == "binary":
        slots = case["slots"]
        assert len(obs["bin"]) == len(obs["order"])

        def bt(x):
            l, r = slots[x]
            return f"BT {x} {copt(l, lambda y: '(' + bt(y) + ')')} {copt(r, lambda y: '(' + bt(y) + ')')}"

        ext = case.get("ext", "none")
        items = []
        for t, (sl, leaf, x) in zip(obs["order"], obs["bin"]):
            if ext == "diameter":
                xs = f"(XDiam {int(x[0])} {int(x[1])})"
            elif ext == "siblings":
                xs = f"(XSibs {clist(copt(c, str) for c in x)})"
            else:
                xs = "XNone"
            items.append(f"BO {int(t)} {clist(copt(c, str) for c in sl)} {cbool(leaf)} {xs}")
        return f"DB ({bt(case['root'])}) {clist(items)}"
    kids = case["kids"]
    n = len(kids)
    t = _ctree(case, kids, case["root"])
    other = "None"
    if case.get("other"):
        other = f"(Some ({_ctree(case, case['other']['kids'], case['other']['root'], off=n)}))"
    nodes = clist(
        "NO {self} {anc} {desc} {leaves} {sibs} {left} {right} {path} {isroot} {isleaf} {root} {diam} {depth} {maxdepth}".format(
            self=int(o["self"]), anc=_cl(o["anc"]), desc=_cl(o["desc"]), leaves=_cl(o["leaves"]),
            sibs=_cl(o["sibs"]), left=copt(o["left"], str), right=copt(o["right"], str), path=_cl(o["path"]),
            isroot=cbool(o["isroot"]), isleaf=cbool(o["isleaf"]), root=int(o["root"]),
            diam=int(o["diam"]), depth=int(o["depth"]), maxdepth=int(o["maxdepth"]))
        for o in obs["nodes"])
    gs = []
    assert len(obs["gotos"]) == len(case["gotos"])
    for (s, a), (code, path) in zip(case["gotos"], obs["gotos"]):
        arg = {"same": lambda: f"(TSame {a[1]})", "other": lambda: f"(TOther {n + a[1]})", "junk": lambda: "TJunk"}[a[0]]()
        gs.append(f"GO {int(s)} {arg} {int(code)} {_cl(path)}")
    return f"DC ({t}) {other} {nodes} {clist(gs)}"


# ---------------------------------------------------------------------------------------------
# generation


def all_shapes(n):
    """all ordered rooted trees with n nodes, as nested lists of children"""
    if n == 1:
        return [[]]
    out = []
    # forests with n-1 nodes: first tree has k nodes, the rest is a forest of n-1-k nodes
    def forests(m):
        if m == 0:
            return [[]]
        res = []
        for k in range(1, m + 1):
            for first in all_shapes(k):
                for rest in forests(m - k):
                    res.append([first] + rest)
        return res
    return forests(n - 1)


_SHAPE_CACHE = {}


def shapes_upto(n):
    if n not in _SHAPE_CACHE:
        _SHAPE_CACHE[n] = [s for k in range(1, n + 1) for s in all_shapes(k)]
    return _SHAPE_CACHE[n]


def shape_size(s):
    return 1 + sum(shape_size(c) for c in s)


def shape_from_parents(par):
    """par[i] < i is the parent of node i (node 0 is the root); children keep increasing order"""
    kids = [[] for _ in par]
    for i in range(1, len(par)):
        kids[par[i]].append(i)

    def go(x):
        return [go(c) for c in kids[x]]

    return go(0)


def random_shape(rng, style, n):
    par = [None]
    dep = [1]
    fan = [0]
    for i in range(1, n):
        if style == "path":
            p = i - 1
        elif style == "star":
            p = 0
        elif style == "deep":
            cands = [j for j in range(i) if dep[j] < 8 and fan[j] < 6]
            p = i - 1 if (rng.random() < 0.7 and dep[i - 1] < 8) else rng.choice(cands)
        elif style == "wide":
            cands = [j for j in range(i) if fan[j] < 6] or list(range(i))
            hubs = [j for j in cands if fan[j] >= 1 or j == 0]
            p = rng.choice(hubs) if (hubs and rng.random() < 0.75) else rng.choice(cands)
        elif style == "broom":          # a handle, then a brush
            p = i - 1 if i <= n // 2 else n // 2
        elif style == "caterpillar":   # a spine with legs
            spine = [j for j in range(i) if j == 0 or dep[j] == max(dep)]
            p = rng.choice(spine[-2:]) if rng.random() < 0.6 else rng.choice([j for j in range(i) if fan[j] >= 1] or [0])
        else:
            p = rng.randrange(i)
        par.append(p)
        dep.append(dep[p] + 1)
        fan.append(0)
        fan[p] += 1
    shape = shape_from_parents(par)
    if style in ("wide", "mixed", "late") or rng.random() < 0.3:
        shape = reorder(rng, shape, style)
    return shape


def shape_height(s):
    return 1 + max([shape_height(c) for c in s], default=0)


def reorder(rng, shape, style):
    """permute children; `late` puts the tallest children last (beyond the third position when possible)"""
    kids = [reorder(rng, c, style) for c in shape]
    if style == "late":
        kids.sort(key=shape_height)
    else:
        rng.shuffle(kids)
    return kids


def late_shape(rng, n):
    """root (or an inner node) with >= 4 children whose two tallest come last"""
    k = rng.randint(4, 6)
    n = max(n, k + 3)
    rest = n - 1 - k
    arms = [1] * k
    for _ in range(rest):
        arms[rng.choice([k - 1, k - 2, k - 1, k - 2, rng.randrange(k)])] += 1
    kids = []
    for a in arms:
        kids.append(random_shape(rng, rng.choice(["path", "deep", "mixed"]), a))
    kids.sort(key=shape_height)
    top = kids
    if rng.random() < 0.4:           # hang it below a short handle so that the wide node is not the root
        top = [top]
    return top


def number_shape(rng, shape, tagging):
    """shape -> (kids indexed by tag, root tag); tagging: preorder | reverse | random"""
    n = shape_size(shape)
    tags = list(range(n))
    if tagging == "reverse":
        tags.reverse()
    elif tagging == "random":
        rng.shuffle(tags)
    kids = [None] * n
    it = iter(tags)

    def go(s):
        t = next(it)
        kids[t] = []
        for c in s:
            kids[t].append(go(c))
        return t

    root = go(shape)
    return kids, root


BUILD_MODES = ["children", "tuple", "parent", "rshift", "append", "extend"]
JUNK_KINDS = ["none", "str", "int", "dag", "list", "obj"]


def shape_fanout(s):
    return max([len(s)] + [shape_fanout(c) for c in s])


def random_binary_shape(rng, n, deep=False):
    par = [None]
    fan = [0]
    for i in range(1, n):
        cands = [j for j in range(i) if fan[j] < 2]
        p = i - 1 if (deep and rng.random() < 0.6 and fan[i - 1] < 2) else rng.choice(cands)
        par.append(p)
        fan.append(0)
        fan[p] += 1
    return shape_from_parents(par)


def make_case(rng, shape, cls=None, tagging=None, all_pairs_upto=7, max_pairs=26, history=None):
    binary_ok = shape_fanout(shape) <= 2
    cls = cls or rng.choice(["Node", "Node", "BaseNode", "Sub"] + (["Binary"] if binary_ok else []))
    tagging = tagging or rng.choice(["preorder", "random", "random", "reverse"])
    kids, root = number_shape(rng, shape, tagging)
    n = len(kids)
    oshape = random_binary_shape(rng, rng.randint(1, 3)) if is_binary_cls(cls) else random_shape(rng, "mixed", rng.randint(1, 3))
    okids, oroot = number_shape(rng, oshape, "preorder")
    case = {"kind": "tree", "cls": cls, "names": rng.choice(["distinct", "repeated"]),
            "build": [rng.choice(BUILD_MODES) for _ in range(rng.randint(1, 3))],
            "kids": kids, "root": root, "other": {"kids": okids, "root": oroot}}
    if is_binary_cls(cls):
        case["sides"] = [rng.randrange(2) for _ in range(n)]
        case["other"]["sides"] = [rng.randrange(2) for _ in okids]
    # how the objects got into this shape: built once | used in another tree before | a subtree taken out and put back
    history = history or rng.choice(["fresh", "fresh", "rebuild", "roundtrip"])
    if history == "roundtrip" and n < 2:
        history = "fresh"
    case["history"] = history
    if history == "rebuild":
        case["names"] = "distinct"          # sibling names must not clash in the earlier tree either
        total = n + len(okids)
        fan = [0] * total
        pre = [None]
        for i in range(1, total):
            cands = [j for j in range(i) if not is_binary_cls(cls) or fan[j] < 2]
            pj = rng.choice(cands)
            fan[pj] += 1
            pre.append(pj)
        case["pre"] = pre
    elif history == "roundtrip":
        x = rng.choice([t for t in range(n) if t != root])
        case["rt_node"] = x
        case["rt_to"] = None
        if not is_binary_cls(cls) and (cls == "BaseNode" or case["names"] == "distinct") and rng.random() < 0.6:
            below = set(preorder(kids, x))
            par_x = parent_map(kids)[x]
            cands = [t for t in range(n) if t not in below and t != par_x]
            if cands:
                case["rt_to"] = rng.choice(cands)
    tags = list(range(n))
    if n <= all_pairs_upto:
        pairs = [[a, ["same", b]] for a in tags for b in tags]
    else:
        par = parent_map(kids)

        def anc(x):
            out = []
            while x in par:
                x = par[x]
                out.append(x)
            return out

        pairs = []
        seen = set()

        def add(a, b):
            if (a, b) not in seen:
                seen.add((a, b))
                pairs.append([a, ["same", b]])

        pre = preorder(kids, root)
        for _ in range(6):            # one node an ancestor of the other, both directions
            x = rng.choice(pre)
            an = anc(x)
            if an:
                y = rng.choice(an)
                add(x, y)
                add(y, x)
        for p_, cs in enumerate(kids):  # siblings and cousins
            if len(cs) >= 2 and rng.random() < 0.5:
                a, b = rng.sample(cs, 2)
                add(a, b)
                if kids[a] and kids[b]:
                    add(rng.choice(kids[a]), rng.choice(kids[b]))
        x = rng.choice(pre)
        add(x, x)
        add(root, root)
        dep = depth_of(kids, root)
        lvs = [t for t in pre if not kids[t]]
        deepest = max(lvs, key=lambda t: dep[t])
        add(root, deepest)              # root <-> deepest leaf, leaf <-> leaf, leaf <-> itself
        add(deepest, root)
        add(lvs[0], lvs[-1])
        add(lvs[-1], lvs[0])
        add(deepest, deepest)
        while len(pairs) < max_pairs:
            add(rng.choice(pre), rng.choice(pre))
    on = len(okids)
    pairs.append([rng.randrange(n), ["other", rng.randrange(on)]])
    pairs.append([root, ["other", oroot]])
    pairs.append([rng.randrange(n), ["junk", rng.choice(JUNK_KINDS)]])
    case["gotos"] = pairs
    return case


def make_special_case(rng, shape, cls, **kw):
    """a tree of a user subclass with falsy instances / value equality (see _special_cls), built once with children="""
    case = make_case(rng, shape, cls=cls, history="fresh", **kw)
    case["build"] = ["children"]
    kids, root = case["kids"], case["root"]
    n = len(kids)
    par = parent_map(kids)
    if cls.startswith("Falsy"):
        case["flavour"] = rng.choice(["len", "len", "bool"])
        rate = rng.choice([0.15, 0.3, 0.6, 1.0])
        falsy = [1 if rng.random() < rate else 0 for _ in range(n)]
        inner = [t for t in range(n) if kids[t]]
        if inner and rng.random() < 0.8:          # a falsy node with nodes below it (root included now and then)
            falsy[rng.choice(inner)] = 1
        case["falsy"] = falsy
        case["other"]["falsy"] = [rng.randrange(2) for _ in case["other"]["kids"]]
        return case
    # value equality: equal names in different branches and along one path
    ci = _child_index(kids)
    dep = depth_of(kids, root)
    mode = rng.choice(["index", "index+depth", "pool"]) if cls != "EqNode" else rng.choice(["index", "index+depth"])
    letters = "abcdefghijklmnopqrstuvwxyz"
    if mode == "index":                          # sibling names distinct (Node demands it), repeated everywhere else
        nl = [letters[ci.get(t, 0)] for t in range(n)]
    elif mode == "index+depth":
        k = rng.choice([2, 3])
        nl = [letters[ci.get(t, 0) + 6 * (dep[t] % k) if ci.get(t, 0) < 6 else ci.get(t, 0)] for t in range(n)]
    else:                                        # siblings may be equal too (BaseNode / BinaryNode do not mind)
        nl = [rng.choice("abc") for _ in range(n)]
    case["namelist"] = nl

    def path(x):
        out = [x]
        while x in par:
            x = par[x]
            out.append(x)
        return out

    def clean(a, b):                             # no two distinct nodes on the two root paths compare equal
        nodes = set(path(a)) | set(path(b))
        return len({nl[t] for t in nodes}) == len(nodes)

    case["gotos"] = [g for g in case["gotos"] if g[1][0] != "same" or clean(g[0], g[1][1])]
    return case


def make_binary_case(rng, n):
    """a binary tree with empty slots: each node gets (None, None), (x, None), (None, x) or (x, y)"""
    slots = [[None, None]]
    free = [(0, 0), (0, 1)]
    for t in range(1, n):
        k = rng.randrange(len(free))
        p, s = free.pop(k)
        slots[p][s] = t
        slots.append([None, None])
        free += [(t, 0), (t, 1)]
    return {"kind": "binary", "slots": slots, "root": 0, "ext": rng.choice(BINARY_EXT[1:] + BINARY_EXT),
            "build": [rng.choice(["children", "leftright", "parent"]) for _ in range(rng.randint(1, 3))]}


BINARY_EXT = ["none", "diameter", "siblings"]     # the inherited BaseNode query also asked of every node


def corpus(prop):
    import random
    rng = random.Random(12)
    out = []
    # the fixture shape of the test-suite (a-h) and hand-made regression shapes
    fixture = [[[], [[], []]], [[]]]
    out.append(("fixture", make_case(rng, fixture, cls="Node", tagging="preorder", all_pairs_upto=8)))
    # two tallest children beyond the third position; tallest two are the last two of five
    out.append(("late-arms", make_case(rng, [[], [], [], [[]], [[[]]]], cls="Node", tagging="preorder")))
    out.append(("late-arms", make_case(rng, [[[], [], [[]], [], [[], [[]]]]], cls="BaseNode", tagging="random")))
    # diameter inside a subtree, not through the root
    out.append(("deep-diameter", make_case(rng, [[[[[]]], [[[]]]], []], cls="Node", tagging="reverse")))
    out.append(("fixture-rebuilt", make_case(rng, fixture, cls="Node", tagging="random", all_pairs_upto=8, history="rebuild")))
    out.append(("fixture-roundtrip", make_case(rng, fixture, cls="Sub", tagging="preorder", all_pairs_upto=8, history="roundtrip")))
    out.append(("fixture-binary", make_case(rng, fixture, cls="Binary", tagging="preorder", all_pairs_upto=8, history="rebuild")))
    for c in ("FalsyNode", "FalsyBase", "FalsyBinary"):     # top -> shelf (empty bag) -> box -> pouch, plus a drawer
        k = make_special_case(rng, [[[[]]], []], c, tagging="preorder")
        k["falsy"] = [0, 1, 0, 0, 0]
        out.append(("falsy-ancestor", k))
    out.append(("single", make_case(rng, [], cls="Binary", tagging="preorder")))
    out.append(("single", make_case(rng, [], cls="Node", tagging="preorder")))
    out.append(("single", make_case(rng, [], cls="BaseNode", tagging="preorder")))
    out.append(("binary", {"kind": "binary", "slots": [[None, None]], "root": 0, "build": ["children"], "ext": "none"}))
    out.append(("binary", {"kind": "binary", "slots": [[1, None], [None, 2], [None, None]], "root": 0, "build": ["children"], "ext": "none"}))
    out.append(("binary", {"kind": "binary", "slots": [[None, 1], [2, 3], [None, None], [None, None]], "root": 0, "build": ["leftright"], "ext": "none"}))
    # the tree on which BaseNode.diameter raised AttributeError before 8c12410 (a=BinaryNode(1); b=BinaryNode(2,parent=a);
    # a.diameter), built through parent= as in the report, and relatives; full and one-sided trees for siblings
    for ext in ("diameter", "siblings"):
        out.append(("binary-" + ext + "-onechild", {"kind": "binary", "slots": [[1, None], [None, None]], "root": 0, "build": ["parent"], "ext": ext}))
        out.append(("binary-" + ext + "-onechild", {"kind": "binary", "slots": [[None, 1], [None, None]], "root": 0, "build": ["children"], "ext": ext}))
        out.append(("binary-" + ext + "-full", {"kind": "binary", "slots": [[1, 2], [None, None], [None, None]], "root": 0, "build": ["children"], "ext": ext}))
        out.append(("binary-" + ext + "-zigzag", {"kind": "binary", "slots": [[None, 1], [2, None], [None, 3], [None, None]], "root": 0, "build": ["leftright"], "ext": ext}))
    return out


def generate(prop, rng, tier):
    small = {"quick": 6, "thorough": 8, "search": 6}[tier]
    count = {"quick": 900, "thorough": 16000, "search": 2500}[tier]
    nbin = {"quick": 120, "thorough": 1500, "search": 200}[tier]
    # small-scope exhaustive: every ordered tree with <= `small` nodes, all ordered pairs for go_to
    for shape in shapes_upto(small):
        n = shape_size(shape)
        yield f"exhaustive<={small}", make_case(rng, shape, all_pairs_upto=7)
    styles = ["wide", "deep", "mixed", "path", "star", "broom", "caterpillar", "late", "late"]
    for i in range(count):
        style = styles[i % len(styles)]
        if style == "late":
            shape = late_shape(rng, rng.randint(7, 12))
        else:
            n = rng.randint(2, 9) if style in ("path", "star") else rng.randint(4, 12)
            shape = random_shape(rng, style, n)
        yield style, make_case(rng, shape)
    # BinaryNode trees asked the same 13 queries and go_to (image without the empty slots; the empty-slot
    # entries of siblings are checked by the `binary` cases below)
    for shape in shapes_upto(min(small, 6)):
        if shape_fanout(shape) <= 2:
            yield "binary-queries-exhaustive", make_case(rng, shape, cls="Binary")
    for i in range(count // 9):
        yield "binary-queries", make_case(rng, random_binary_shape(rng, rng.randint(2, 12), deep=i % 2 == 0), cls="Binary")
    # user subclasses with falsy instances / value equality, on Node, BaseNode and BinaryNode
    nspecial = {"quick": 36, "thorough": 400, "search": 80}[tier]
    for cls in SPECIAL:
        for shape in shapes_upto(4):
            if not is_binary_cls(cls) or shape_fanout(shape) <= 2:
                yield "subclass-" + cls, make_special_case(rng, shape, cls)
        for i in range(nspecial):
            if is_binary_cls(cls):
                shape = random_binary_shape(rng, rng.randint(3, 11), deep=i % 2 == 0)
            else:
                shape = random_shape(rng, ["deep", "mixed", "wide", "path", "caterpillar"][i % 5], rng.randint(3, 11))
            yield "subclass-" + cls, make_special_case(rng, shape, cls)
    # long routes: 25-40 nodes, depth up to 40
    for i in range({"quick": 3, "thorough": 40, "search": 6}[tier]):
        n = rng.randint(25, 40)
        par = [None] + [(j - 1 if rng.random() < 0.85 else rng.randrange(j)) for j in range(1, n)]
        yield "very-deep", make_case(rng, shape_from_parents(par), max_pairs=16)
    for i in range(nbin):
        yield "binary", make_binary_case(rng, rng.randint(1, 9))


# ---------------------------------------------------------------------------------------------
# shrinking, evidence


def _remove_leaf(case, leaf):
    """the case without node `leaf` (a leaf of the main tree, not the root); tags above it shift down"""
    kids = case["kids"]
    n = len(kids)

    def ren(x):
        return x - 1 if x > leaf else x

    nk = [[ren(c) for c in cs if c != leaf] for t, cs in enumerate(kids) if t != leaf]
    c = dict(case)
    c["kids"] = nk
    c["root"] = ren(case["root"])
    if case.get("sides"):
        c["sides"] = [x for t, x in enumerate(case["sides"]) if t != leaf]
    for k in ("falsy", "namelist"):
        if case.get(k) is not None:
            c[k] = [x for t, x in enumerate(case[k]) if t != leaf]
    if case.get("history") == "rebuild":
        c["pre"] = [None] + list(range(len(nk) + len(case["other"]["kids"]) - 1))      # a chain
    if case.get("history") == "roundtrip":
        if case["rt_node"] == leaf or case.get("rt_to") == leaf or len(nk) < 2:
            c["history"] = "fresh"
        else:
            c["rt_node"] = ren(case["rt_node"])
            c["rt_to"] = None if case.get("rt_to") is None else ren(case["rt_to"])
    g = []
    for s, a in case["gotos"]:
        if s == leaf or (a[0] == "same" and a[1] == leaf):
            continue
        s2 = ren(s)
        if a[0] == "same":
            g.append([s2, ["same", ren(a[1])]])
        else:
            g.append([s2, a])
    c["gotos"] = g
    return c


def shrink_candidates(prop, case):
    if case["kind"] == "binary":
        slots = case["slots"]
        n = len(slots)
        for leaf in range(n - 1, 0, -1):
            if slots[leaf] == [None, None]:
                ns = [[(None if c == leaf else (c - 1 if c is not None and c > leaf else c)) for c in s]
                      for t, s in enumerate(slots) if t != leaf]
                c = dict(case)
                c["slots"] = ns
                yield c
        return
    kids = case["kids"]
    for leaf in range(len(kids) - 1, -1, -1):
        if not kids[leaf] and leaf != case["root"]:
            yield _remove_leaf(case, leaf)
    g = case["gotos"]
    if len(g) > 1:
        yield dict(case, gotos=g[: len(g) // 2])
        yield dict(case, gotos=g[len(g) // 2:])
        for k in range(min(len(g), 60)):
            yield dict(case, gotos=g[:k] + g[k + 1:])
    elif len(g) == 1:
        yield dict(case, gotos=[])
    if case.get("history", "fresh") != "fresh":
        yield dict(case, history="fresh")
    if case.get("build") != ["children"]:
        yield dict(case, build=["children"])
    if case["cls"] not in ("Node", "Binary") and case["cls"] not in SPECIAL:
        yield dict(case, cls="Node")
    if case.get("falsy"):
        for t, f in enumerate(case["falsy"]):
            if f:
                yield dict(case, falsy=[0 if u == t else x for u, x in enumerate(case["falsy"])])


def size(case):
    if case["kind"] == "binary":
        return len(case["slots"])
    return (10 * len(case["kids"]) + len(case["gotos"]) + (0 if case.get("build") == ["children"] else 1)
            + (0 if case.get("history", "fresh") == "fresh" else 2))


def nontrivial(prop, case, obs):
    if case["kind"] == "binary":
        return len(case["slots"]) >= 2
    return len(case["kids"]) >= 3


def sample(prop, case, obs):
    if case["kind"] == "binary":
        return {"kind": "binary", "slots": case["slots"], "ext": case.get("ext", "none"),
                "is_leaf": [b[1] for b in obs["bin"]], "ext_values": [b[2] for b in obs["bin"]]}
    return {"class": case["cls"], "history": case.get("history", "fresh"), "kids": case["kids"], "root": case["root"],
            "first_node": obs["nodes"][0] if obs.get("nodes") else None,
            "gotos": list(zip(case["gotos"][:3], obs["gotos"][:3]))}


def rule(prop):
    return ("every node of a generated tree is asked all 13 derived queries TWICE (answers must repeat; numbers must be int, "
            "yes/no answers bool; sequences are compared in order), go_to is asked for every ordered pair of nodes (<= 7 nodes) "
            "or a biased sample (ancestor/descendant both ways, siblings, cousins, node with itself, root with itself, root <-> "
            "deepest leaf, leaf <-> leaf, random), for nodes of a second tree and for a non-node; afterwards the children links "
            "must still be the built ones; shapes: all ordered trees up to 6 (quick) / 8 (thorough) nodes incl. the one-node tree, "
            "random wide/deep/mixed/path/star/broom/caterpillar/tallest-children-last shapes with <= 12 nodes, a few 25-40 node "
            "trees of depth up to 40; classes BaseNode, Node, a Node subclass and BinaryNode (fan-out <= 2, only children on "
            "either side), and user subclasses of Node / BaseNode / BinaryNode whose instances can be falsy (__len__ = items in "
            "the bag, or __bool__; falsy roots, inner nodes, leaves, all nodes) or have value equality (__eq__/__hash__ by name; "
            "equal names across branches, along one path, among BaseNode/BinaryNode siblings) wherever the unchanged library's "
            "answer is defined by the links (see partial_clauses); object histories: built once through children=/tuple/parent=/>>/append/extend | all objects (both "
            "trees) first linked into one other tree, queried, detached, then rebuilt | a subtree detached or hung elsewhere, "
            "queried, and put back; tags in pre-order/reverse/random creation order; `binary` cases: BinaryNode trees with empty "
            "slots for is_leaf and the inherited diameter / siblings (the other slot entries, None for an empty slot); "
            "non-trivial = >= 3 nodes (binary: >= 2); distinct by canonical JSON hash")


def explain(prop, case, obs, flags):
    from ._base import explain as base
    msg = base(prop, case, obs, flags)
    if case.get("kind") == "binary" and case.get("ext", "none") != "none" and isinstance(obs, dict) and "bin" in obs:
        msg += ("; BinaryNode tree, inherited BaseNode." + case["ext"] + " per node (pre-order): "
                + repr([b[2] for b in obs["bin"]]))
    return msg


def trusted_base(prop):
    return COMMON_TB + ["positions (child-index routes) as the identity of node objects; tags decoded to positions by Corr/DerivedCorr.v"]


def partial_clauses(prop):
    """accepted blind spots of the correspondence (nothing of the theorem list is partial)"""
    return [
        "not compared: the container type of an answer (tuple / list / generator), exception messages; the exception class "
        "of a refused go_to is compared with the model (TreeError / TypeError) but the property predicate only asks for a refusal",
        "go_to is always asked OF a node of the first tree (towards the first tree, the second tree, a non-node), never of a node of the second tree",
        "BinaryNode trees asked the 13 queries: the None entries of siblings are dropped there and checked (slot semantics) only by the `binary` cases",
        "routes longer than 40 nodes are not generated (depth / root / node_path recurse per level: CPython's recursion limit near depth 1000 is not modelled)",
        "falsy-instance subclasses: NOT observed (the unchanged library answers by truth value, not by the links): descendants / leaves of a node "
        "whose subtree holds a falsy node and max_depth of any tree with one (preorder_iter `if tree`), left/right_sibling below a falsy parent "
        "(`if self.parent:`), diameter above a falsy node (`if child`, raises ValueError when all children are falsy), BinaryNode.is_leaf above a "
        "falsy child; everything else (ancestors, root, depth, node_path, is_root, is_leaf, siblings, go_to) is observed on them",
        "value-equality subclasses: NOT observed: descendants of a node with an equal proper descendant and max_depth when a node equals the root "
        "(`_node != self`), left/right_sibling among equal siblings (children.index(self)); go_to pairs whose two root paths hold two distinct "
        "equal nodes are not generated (go_to works on ==, set() and list.index); these subclasses are built once with children= only",
        "object histories are limited to rebuild-after-detach and one subtree round trip; no failing hooks, no sort(), no DAGNode",
    ]
