"""Engine `binary`: operation histories on BinaryNode objects (C11, and the BinaryNode share of C02, C20).

A case is {"assert": True, "n": k, "prefix": [op...], "branches": [[op...], ...]}: k plain BinaryNode
objects, a prefix history (observed once, at its end) and branches that are each replayed from a fresh
copy of the state the prefix leads to and observed after every operation.  Random histories have an empty
prefix and one branch; the small-scope enumeration (thorough tier) has one case per reachable state (prefix =
a shortest history to it) with one single-operation branch per operation.

Fault injection: the documented `_BinaryNode__pre_assign_parent` / `..._post_assign_parent` /
`..._pre_assign_children` / `..._post_assign_children` extension points of a harness-side subclass.
C20: the same case is additionally run by `harness.noassert` in a child interpreter started with
BIGTREE_CONF_ASSERTIONS="" (function `run_history` of this module)."""
import itertools

from ..core import cbool, clist, copt, cpair
from ._base import *  # noqa
from ._base import exn_code, COMMON_TB

CASES_PER_FILE = 150
SERVES = ["C11", "C02", "C20"]
COQ_TARGETS = ["theories/Corr/BinaryCorr.vo"]


def coq_header(prop):
    return "From BT Require Import Base.Prelude Heap.Forest Heap.Binary Corr.BinaryCorr."


def coq_case_type(prop):
    return "bcase"


def coq_check(prop):
    return {"C11": "check_C11", "C02": "check_C02_binary", "C20": "check_C20_binary"}[prop]


# ---------------------------------------------------------------------------------------------
# implementation side


class HookFault(Exception):
    pass


_CLASSES = {}


def _classes():
    if _CLASSES:
        return _CLASSES
    from bigtree.node.binarynode import BinaryNode

    def touch(*objs):
        """read every public link getter of the nodes involved (any state cached on read would be exercised)"""
        for o in objs:
            for x in (o if isinstance(o, (list, tuple)) else [o]):
                if isinstance(x, BinaryNode):
                    for attr in ("children", "left", "right", "parent"):
                        try:
                            getattr(x, attr)
                        except Exception:
                            pass

    def reassign(*objs):
        """a hook that MUTATES, benignly: re-assign to every node involved the children it already has (an
        accepted assignment whose net effect is nil), from inside the hook of the running assignment"""
        for o in objs:
            for x in (o if isinstance(o, (list, tuple)) else [o]):
                if isinstance(x, BinaryNode):
                    try:
                        x.children = list(x.children)
                    except Exception:
                        pass

    class Faults:
        queue = []      # one entry per setter call: None | "pre" | "post"
        pending = False
        reentrant = False   # case option: hooks also perform the benign re-assignment above
        depth = 0

        @classmethod
        def pre(cls, *involved):
            if cls.depth:           # a setter call made by a hook: no fault logic, no recursion
                return
            touch(*involved)
            if cls.reentrant:
                cls.depth += 1
                try:
                    reassign(*involved)
                finally:
                    cls.depth -= 1
                touch(*involved)
            cur = cls.queue.pop(0) if cls.queue else None
            cls.pending = cur == "post"
            if cur == "pre":
                raise HookFault("pre")

        @classmethod
        def post(cls, *involved):
            if cls.depth:
                return
            touch(*involved)
            if cls.reentrant:
                cls.depth += 1
                try:
                    reassign(*involved)
                finally:
                    cls.depth -= 1
                touch(*involved)
            if cls.pending:
                cls.pending = False
                raise HookFault("post")

    class FBin(BinaryNode):
        def _BinaryNode__pre_assign_parent(self, new_parent):
            Faults.pre(self, self.parent, new_parent)

        def _BinaryNode__post_assign_parent(self, new_parent):
            Faults.post(self, self.parent, new_parent)

        def _BinaryNode__pre_assign_children(self, new_children):
            Faults.pre(self, list(self.children), list(new_children), [c.parent for c in new_children if isinstance(c, BinaryNode)])

        def _BinaryNode__post_assign_children(self, new_children):
            Faults.post(self, list(self.children), list(new_children), [c.parent for c in new_children if isinstance(c, BinaryNode)])

    class VBin(FBin):
        """user subclass with value semantics: nodes compare / hash by name.  The histories keep all names
        distinct (equal-named twins make the unchanged setters pick the wrong node: list.index / dict keys
        work on ==), so identity and equality coincide and the library must behave exactly as on FBin."""

        def __eq__(self, other):
            return isinstance(other, VBin) and self.name == other.name

        def __hash__(self):
            return hash(self.name)

    _CLASSES.update(Faults=Faults, FBin=FBin, VBin=VBin)
    return _CLASSES


class Junk:
    """a Python object that is not a node"""


# non-node arguments: ["Junk"] / ["Junk", "obj"] = a truthy object; the others are FALSY values that are
# neither None nor a node.  The model treats every kind alike (AJunk: TypeError with the checks on).
def _mk_node():
    from bigtree.node.node import Node
    return Node("x")


def _mk_base():
    from bigtree.node.basenode import BaseNode
    return BaseNode()


JUNK_KINDS = {"obj": Junk, "1": lambda: 1, "True": lambda: True, "strx": lambda: "x",
              "node": _mk_node, "base": _mk_base,        # bigtree nodes that are no BinaryNode
              "0": lambda: 0, "str": lambda: "", "False": lambda: False, "0.0": lambda: 0.0,
              "tuple": lambda: (), "list": lambda: [], "dict": lambda: {}}
TRUTHY_JUNK = ["obj", "1", "True", "strx", "node", "base"]
FALSY_JUNK = ["0", "str", "False", "0.0", "tuple", "list", "dict"]
HASHABLE_JUNK = TRUTHY_JUNK + ["0", "str", "False", "0.0", "tuple"]


def _arg(nodes, a):
    if a[0] == "N":
        return nodes[a[1]]
    if a[0] == "None":
        return None
    return JUNK_KINDS[a[1] if len(a) > 1 else "obj"]()


def _junk(rng, hashable=False, truthy=False):
    if truthy:
        return ["Junk", rng.choice(TRUTHY_JUNK)]
    pool = HASHABLE_JUNK if hashable else TRUTHY_JUNK + FALSY_JUNK
    # about half of the junk is falsy
    if rng.random() < 0.45:
        return ["Junk", rng.choice(TRUTHY_JUNK)]
    return ["Junk", rng.choice([k for k in pool if k not in TRUTHY_JUNK])]


class _CallerList:
    """The caller's own list object: ONE list per history, re-used for every list-typed argument
    (children setter, constructor `children=`, extend) and overwritten in place right after the call.
    An implementation that keeps the caller's list as its slot list, or reads it lazily, shows up in the
    next observation; an implementation that writes to the caller's list is reported through `mutated`."""
    lst = []
    given = None
    mutated = False

    @classmethod
    def load(cls, items):
        cls.lst[:] = items
        cls.given = list(items)
        return cls.lst

    @classmethod
    def release(cls):
        if cls.given is not None:
            if len(cls.lst) != len(cls.given) or any(a is not b for a, b in zip(cls.lst, cls.given)):
                cls.mutated = True
            cls.given = None
            cls.lst[:] = [Junk(), Junk(), Junk()]


_LAST_TUPLE = [()]


def _container(kind, items):
    if kind == "list":
        return _CallerList.load(items)
    if kind == "tuple":
        # the SAME tuple object when the same items are passed again (repeated call / another node)
        t = _LAST_TUPLE[0]
        if len(t) == len(items) and len(t) > 0 and all(a is b for a, b in zip(t, items)):
            return t
        _LAST_TUPLE[0] = tuple(items)
        return _LAST_TUPLE[0]
    if kind == "gen":
        return (x for x in items)        # a generator: iterable, not sized, no list/tuple/set
    if kind == "set":
        return set(items)
    return {i: x for i, x in enumerate(items)}.values()   # a dict view: iterable, sized, no list/tuple/set


def _fq(f):
    return {"none": None, "pre": "pre", "post": "post"}[f]


FOREIGN = 99     # an object that is none of the case's nodes sits in a slot / parent field


def _links(nodes):
    idx = {id(n): i for i, n in enumerate(nodes)}

    def num(x):
        return None if x is None else idx.get(id(x), FOREIGN)

    out = []
    for n in nodes:
        lr = []
        for side in ("left", "right"):
            try:
                lr.append(["v", num(getattr(n, side))])
            except Exception:
                lr.append(["e"])
        out.append([num(n.parent), [num(c) for c in n.children], lr])
    return out


def apply_op(cl, nodes, op):
    F = cl["Faults"]
    F.queue = []
    F.pending = False
    k = op[0]
    if k == "SetParent":
        F.queue = [_fq(op[3])]
        how = op[4] if len(op) > 4 else "set"
        c = nodes[op[1]]
        a = _arg(nodes, op[2])
        if how == "set" or op[2][0] != "N":
            c.parent = a
        elif how == "append":
            a.append(c)
        elif how == "rshift":
            a >> c
        else:
            c << a
    elif k == "SetChildren":
        F.queue = [_fq(op[4])]
        nodes[op[1]].children = _container(op[2], [_arg(nodes, a) for a in op[3]])
    elif k == "SetLeft":
        F.queue = [_fq(op[3])]
        nodes[op[1]].left = _arg(nodes, op[2])
    elif k == "SetRight":
        F.queue = [_fq(op[3])]
        nodes[op[1]].right = _arg(nodes, op[2])
    elif k == "DelChildren":
        del nodes[op[1]].children
    elif k == "Sort":
        keys = op[2]
        pos = {id(n): i for i, n in enumerate(nodes)}
        key = lambda nd: keys[pos[id(nd)]] if pos[id(nd)] < len(keys) else 0   # noqa: E731
        if op[3]:
            nodes[op[1]].sort(key=key, reverse=True)
        else:
            nodes[op[1]].sort(key=key)          # `reverse` omitted: the default
    elif k == "Extend":
        F.queue = [_fq(f) for f in op[3]]
        nodes[op[1]].extend(_CallerList.load([nodes[c] for c in op[2]]))
    elif k == "New":
        FBin = cl["cls"]
        obj = FBin.__new__(FBin)          # FBin(...) = __new__ + __init__; keep the object even if __init__ raises
        left, right, par = _arg(nodes, op[1]), _arg(nodes, op[2]), _arg(nodes, op[3])
        ch = _CallerList.load([_arg(nodes, a) for a in op[4]]) if op[4] else None
        nodes.append(obj)
        F.queue = [_fq(op[5]), _fq(op[6])]
        i = len(nodes) - 1
        obj.__init__(i, left=left, right=right, parent=par, children=ch, tag=7 * i + 1)
    else:
        raise ValueError(k)


ARG_MUTATED = 15     # outcome code: the call wrote to the caller's own list


def _run_ops(cl, nodes, ops, trace):
    for op in ops:
        code = 0
        _CallerList.mutated = False
        try:
            apply_op(cl, nodes, op)
        except HookFault:
            code = 12
        except Exception as e:
            code = exn_code(e)
        _CallerList.release()
        if _CallerList.mutated:
            # make it visible at the only granularity the check compares (accepted / rejected): flip it
            code = ARG_MUTATED if code == 0 else 0
        cl["Faults"].queue = []
        cl["Faults"].pending = False
        cl["Faults"].depth = 0
        if trace is not None:
            trace.append([_links(nodes), code])


def run_history(case, battery_wanted=False):
    """Runs in whatever interpreter imports this module (the harness worker: checks on; the
    harness.noassert child: checks off)."""
    cl = _classes()
    cl["Faults"].queue = []
    cl["Faults"].pending = False
    cl["Faults"].depth = 0
    cl["Faults"].reentrant = bool(case.get("reentrant"))
    _CallerList.lst = []
    _CallerList.given = None

    cl["cls"] = cl["VBin"] if case.get("cls") == "valeq" else cl["FBin"]

    def fresh():
        # int names (BinaryNode(1): name "1", val 1) and one extra attribute per node
        nodes = [cl["cls"](i, tag=7 * i + 1) for i in range(case["n"])]
        _run_ops(cl, nodes, case["prefix"], None)
        return nodes

    pre = _links(fresh())
    branches = []
    battery = []
    for ops in case["branches"]:
        nodes = fresh()
        tr = []
        _run_ops(cl, nodes, ops, tr)
        branches.append(tr)
        if battery_wanted:
            battery.append(_battery(nodes))
    cl["Faults"].reentrant = False
    return {"pre": pre, "branches": branches, "battery": battery}


def _battery(nodes):
    """results of library functions on every binary tree of the final state (C20: must not depend on the
    assertion switch); every call individually guarded, an exception is recorded by its class"""
    import contextlib
    import io
    import json
    from bigtree.tree import export, helper
    from bigtree.utils import iterators
    idx = {id(n): i for i, n in enumerate(nodes)}

    def ids(it):
        return [None if x is None else idx.get(id(x), FOREIGN) for x in it]

    def shape(root):
        return [[x.name, x.val, None if x.left is None else x.left.name, None if x.right is None else x.right.name,
                 getattr(x, "tag", None)] for x in iterators.preorder_iter(root)]

    def printed(root):
        buf = io.StringIO()
        with contextlib.redirect_stdout(buf):
            export.print_tree(root, all_attrs=True)
        return buf.getvalue()

    out = []

    def run(item, key, f):
        try:
            item[key] = f()
        except Exception as e:
            item[key] = "ERR:" + type(e).__name__

    per_node = {}
    for i, n in enumerate(nodes):
        run(per_node, str(i), lambda n=n: [n.name, n.val, getattr(n, "tag", None), n.is_leaf, n.is_root, n.depth,
                                              n.path_name, ids(n.siblings), ids(n.ancestors)])
    out.append(per_node)
    for n in nodes:
        if n.parent is not None:
            continue
        item = {}
        run(item, "inorder", lambda: ids(iterators.inorder_iter(n)))
        run(item, "inorder2", lambda: ids(iterators.inorder_iter(n, max_depth=2)))
        run(item, "pre", lambda: ids(iterators.preorder_iter(n)))
        run(item, "post", lambda: ids(iterators.postorder_iter(n)))
        run(item, "level", lambda: [ids(g) for g in iterators.levelordergroup_iter(n)])
        run(item, "zigzag", lambda: ids(iterators.zigzag_iter(n)))
        run(item, "desc", lambda: [ids(n.descendants), ids(n.leaves), n.max_depth, n.diameter])
        run(item, "print", lambda: printed(n))
        run(item, "dict", lambda: export.tree_to_dict(n, all_attrs=True))
        run(item, "nested", lambda: export.tree_to_nested_dict(n, all_attrs=True))
        run(item, "clone", lambda: shape(helper.clone_tree(n, type(n))))
        run(item, "copy", lambda: shape(n.copy()))
        run(item, "prune", lambda: shape(helper.prune_tree(n, max_depth=2)))
        run(item, "subtree", lambda: shape(helper.get_subtree(n, max_depth=2)))
        out.append(item)
    return json.loads(json.dumps(out, default=str, sort_keys=True))


def run_impl(prop, case):
    from bigtree.globals import ASSERTIONS
    if not ASSERTIONS:
        raise RuntimeError("the harness process must run with the assertion checks on")
    if not case["assert"] and prop != "C20":
        # C11 / C02 with the checks switched off: the whole case runs in the child interpreter
        from .. import noassert
        if noassert.call("harness.engines.binary", "__assertions__"):
            raise RuntimeError("the no-assertion child runs with the checks on")
        on = noassert.call("harness.engines.binary", "run_history", case)
    else:
        on = run_history(case, prop == "C20")
    obs = {"pre": on["pre"], "pre_off": [], "on": on["branches"], "off": [[] for _ in on["branches"]],
           "lib_equal": True, "battery_items": 0}
    if prop == "C20":
        from .. import noassert
        if noassert.call("harness.engines.binary", "__assertions__"):
            raise RuntimeError("the no-assertion child runs with the checks on")
        off = noassert.call("harness.engines.binary", "run_history", case, True)
        obs["pre_off"] = off["pre"]
        obs["off"] = off["branches"]
        # the library results are compared wherever no type/loop check rejected a call (hook failures allowed)
        ok = [all(code not in (1, 6) for _, code in tr) for tr in on["branches"]]    # no TypeError / LoopError
        obs["lib_equal"] = all(a == b for a, b, k in zip(on["battery"], off["battery"], ok) if k)
        obs["battery_items"] = sum(len(b) for b, k in zip(on["battery"], ok) if k)
        if not obs["lib_equal"]:
            obs["battery_diff"] = next([a, b] for a, b, k in zip(on["battery"], off["battery"], ok) if k and a != b)
    return obs


# ---------------------------------------------------------------------------------------------
# Coq literals


def _carg(a):
    return {"N": lambda: f"ANode {a[1]}", "None": lambda: "ANone", "Junk": lambda: "AJunk"}[a[0]]()


_FT = {"none": "NoFault", "pre": "PreFail", "post": "PostFail"}
_CT = {"list": "CList", "tuple": "CTuple", "set": "CSet", "other": "COther", "gen": "COther"}


def _cop(op):
    k = op[0]
    if k == "SetParent":
        return f"BSetParent {op[1]} ({_carg(op[2])}) {_FT[op[3]]}"
    if k == "SetChildren":
        return f"BSetChildren {op[1]} {_CT[op[2]]} {clist(_carg(a) for a in op[3])} {_FT[op[4]]}"
    if k in ("SetLeft", "SetRight"):
        return f"B{k} {op[1]} ({_carg(op[2])}) {_FT[op[3]]}"
    if k == "DelChildren":
        return f"BDelChildren {op[1]}"
    if k == "Sort":
        return f"BSort {op[1]} {clist(str(int(x)) for x in op[2])} {cbool(op[3])}"
    if k == "Extend":
        return f"BExtend {op[1]} {clist(str(int(c)) for c in op[2])} {clist(_FT[f] for f in op[3])}"
    if k == "New":
        return (f"BNew ({_carg(op[1])}) ({_carg(op[2])}) ({_carg(op[3])}) {clist(_carg(a) for a in op[4])} "
                f"{_FT[op[5]]} {_FT[op[6]]}")
    raise ValueError(k)


def _cid(x):
    return copt(x, lambda v: str(int(v)))


def _cget(g):
    return "None" if g[0] == "e" else f"(Some {_cid(g[1])})"


def _cnode(p, cs, lr):
    if len(cs) == 2 and lr[0] == ["v", cs[0]] and lr[1] == ["v", cs[1]]:
        # pure abbreviation, expanded by Corr.BinaryCorr.o3 (0 = None, k+1 = node k)
        return "o3 " + " ".join(str(0 if v is None else int(v) + 1) for v in (p, cs[0], cs[1]))
    return f"({_cid(p)}, {clist(_cid(c) for c in cs)}, ({_cget(lr[0])}, {_cget(lr[1])}))"


def _clinks(l):
    return clist(_cnode(p, cs, lr) for p, cs, lr in l)


def _clinks_full(l):
    return clist(f"({_cid(p)}, {clist(_cid(c) for c in cs)}, ({_cget(lr[0])}, {_cget(lr[1])}))" for p, cs, lr in l)


def _ctrace(tr):
    return clist(cpair(_clinks(l), str(int(code))) for l, code in tr)


def emit(prop, case, obs):
    assert len(obs["on"]) == len(case["branches"]) == len(obs["off"])
    brs = []
    for ops, on, off in zip(case["branches"], obs["on"], obs["off"]):
        assert len(on) == len(ops)
        brs.append(f"BB {clist(_cop(o) for o in ops)} {_ctrace(on)} {_ctrace(off)}")
    parts = [cbool(case["assert"]), str(case["n"]), clist(_cop(o) for o in case["prefix"]),
             _clinks(obs["pre"]), _clinks(obs["pre_off"]), clist(brs), cbool(obs.get("lib_equal", True))]
    return "BC " + " ".join(f"({p})" for p in parts)


# ---------------------------------------------------------------------------------------------
# generation: a reference shadow of the *valid* behaviour, used only to steer generation (which ops are
# valid / invalid from here, which states are reachable); never compared with anything


class Shadow:
    def __init__(self, n):
        self.par = [None] * n
        self.kids = [[None, None] for _ in range(n)]

    def copy(self):
        s = Shadow(0)
        s.par = list(self.par)
        s.kids = [list(k) for k in self.kids]
        return s

    def key(self):
        return (tuple(self.par), tuple(tuple(k) for k in self.kids))

    @property
    def n(self):
        return len(self.par)

    def anc(self, x):
        out = []
        while self.par[x] is not None:
            x = self.par[x]
            out.append(x)
        return out

    def desc(self, x):
        out = []
        st = [k for k in self.kids[x] if k is not None]
        while st:
            y = st.pop()
            out.append(y)
            st.extend(k for k in self.kids[y] if k is not None)
        return out

    def roots(self):
        return [x for x in range(self.n) if self.par[x] is None]

    def _detach(self, c):
        q = self.par[c]
        if q is not None:
            self.kids[q][self.kids[q].index(c)] = None
        self.par[c] = None

    def set_parent(self, c, p):
        """True iff accepted"""
        if p is not None and (p == c or c in self.anc(p)):
            return False
        if p is not None:
            free = [i for i, k in enumerate(self.kids[p]) if k is None or k == c]
            if not free:
                return False
        self._detach(c)
        if p is not None:
            i = self.kids[p].index(None)
            self.kids[p][i] = c
            self.par[c] = p
        return True

    def children_valid(self, p, cs):
        if len(cs) == 0:
            cs = [None, None]
        if len(cs) != 2:
            return False
        somes = [c for c in cs if c is not None]
        if len(set(somes)) != len(somes) or p in somes or any(c in self.anc(p) for c in somes):
            return False
        return True

    def set_children(self, p, cs):
        if not self.children_valid(p, cs):
            return False
        if len(cs) == 0:
            cs = [None, None]
        for k in list(self.kids[p]):
            if k is not None:
                self._detach(k)
        for c in cs:
            if c is not None:
                self._detach(c)
        self.kids[p] = list(cs)
        for c in cs:
            if c is not None:
                self.par[c] = p
        return True

    def delete(self, p):
        for k in list(self.kids[p]):
            if k is not None:
                self._detach(k)

    def sort(self, p, keys, rev):
        ch = [k for k in self.kids[p] if k is not None]
        if len(ch) == 2:
            ch.sort(key=lambda x: keys[x] if x < len(keys) else 0, reverse=rev)
            self.kids[p] = ch

    def new(self):
        self.par.append(None)
        self.kids.append([None, None])
        return self.n - 1

    def apply(self, op):
        """apply an op without faults; returns accepted?"""
        k = op[0]
        if k == "SetParent":
            if op[2][0] == "Junk" or op[3] != "none":
                return False
            return self.set_parent(op[1], op[2][1] if op[2][0] == "N" else None)
        if k == "SetChildren":
            if op[2] in ("other", "gen") or op[4] != "none" or any(a[0] == "Junk" for a in op[3]):
                return False
            return self.set_children(op[1], [a[1] if a[0] == "N" else None for a in op[3]])
        if k in ("SetLeft", "SetRight"):
            if op[2][0] == "Junk" or op[3] != "none":
                return False
            v = op[2][1] if op[2][0] == "N" else None
            cs = [v, self.kids[op[1]][1]] if k == "SetLeft" else [self.kids[op[1]][0], v]
            return self.set_children(op[1], cs)
        if k == "DelChildren":
            self.delete(op[1])
            return True
        if k == "Sort":
            self.sort(op[1], op[2], op[3])
            return True
        if k == "Extend":
            for c, f in zip(op[2], op[3]):
                if f != "none" or not self.set_parent(c, op[1]):
                    return False
            return True
        if k == "New":
            x = self.new()
            l, r, par, ch, fp, fc = op[1:7]
            if ch:
                if len(ch) != 2:
                    return False
                if l[0] != "None" and l != ch[0]:
                    return False
                if r[0] != "None" and r != ch[1]:
                    return False
            else:
                ch = [l, r]
            if fp != "none" or par[0] == "Junk":
                return False
            if not self.set_parent(x, par[1] if par[0] == "N" else None):
                return False
            if fc != "none" or any(a[0] == "Junk" for a in ch):
                return False
            return self.set_children(x, [a[1] if a[0] == "N" else None for a in ch])
        raise ValueError(k)


def _A(x):
    return ["None"] if x is None else ["N", x]


def _no_fault(op):
    """the same call with no hook failing"""
    k = op[0]
    op = [list(x) if isinstance(x, list) else x for x in op]
    if k in ("SetParent", "SetLeft", "SetRight"):
        op[3] = "none"
    elif k == "SetChildren":
        op[4] = "none"
    elif k == "Extend":
        op[3] = ["none"] * len(op[3])
    elif k == "New":
        op[5] = op[6] = "none"
    return op


def _check_valid(sh, op):
    """no type/loop check (and no other refusal) would reject this call from the shadow state"""
    return sh.copy().apply(_no_fault(op))


def gen_case(rng, prop, fault_rate=0.1, invalid_rate=0.15, nmin=3, nmax=7, maxops=14, stratum=None, only_valid=False):
    n = rng.randint(nmin, nmax)
    sh = Shadow(n)
    ops = []
    stratum = stratum or rng.choice(["mixed", "mixed", "slots", "parent", "full", "alloc"])
    nmax_total = n + 3

    def fault():
        r = rng.random()
        return "post" if r < fault_rate * 0.6 else "pre" if r < fault_rate else "none"

    def pick_children(p, valid):
        bad = set(sh.anc(p)) | {p}
        cands = [x for x in range(sh.n) if x not in bad]
        r = rng.random()
        if r < 0.25 and len(sh.roots()) >= 2:
            # two parentless nodes (both "orphans" of the rollback) where possible
            rs = [x for x in sh.roots() if x not in bad]
            rng.shuffle(rs)
            cs = (rs + [None, None])[:2]
        elif r < 0.45:
            # steal two children of one donor, in either order
            donors = [q for q in range(sh.n) if q != p and all(k is not None and k not in bad for k in sh.kids[q])]
            if donors:
                cs = list(sh.kids[rng.choice(donors)])
                if rng.random() < 0.5:
                    cs.reverse()
            else:
                cs = [rng.choice(cands + [None]), None]
        elif r < 0.6:
            # permute / keep own children
            cs = list(sh.kids[p])
            if rng.random() < 0.6:
                cs.reverse()
        else:
            cs = [rng.choice(cands + [None]) if cands else None, rng.choice(cands + [None]) if cands else None]
            if cs[0] is not None and cs[0] == cs[1]:
                cs[1] = None
        if rng.random() < 0.12:
            cs = []
        args = [_A(c) for c in cs]
        cont = rng.choice(["list", "list", "tuple"])
        if not cs:
            cont = rng.choice(["list", "tuple", "set"])       # [] / () / set(): all accepted with the checks on
        if not valid:
            ch = rng.random()
            if ch < 0.12:
                args = args[:1]
            elif ch < 0.34:
                args = (args + [["None"], ["None"]])[:2] + [rng.choice([["None"], ["None"], _A(rng.randrange(sh.n))])]
            elif ch < 0.40:
                args = args + [["None"], ["None"]]
            elif ch < 0.52 and args:
                args[rng.randrange(len(args))] = _junk(rng)
            elif ch < 0.64 and args:
                args[rng.randrange(len(args))] = ["N", p]
            elif ch < 0.78 and args and sh.anc(p):
                args[rng.randrange(len(args))] = ["N", rng.choice(sh.anc(p))]
            elif ch < 0.90 and len(args) == 2:
                k = [a for a in args if a[0] == "N"]
                if k:
                    args = [k[0], k[0]]
            elif ch < 0.95:
                cont = rng.choice(["other", "gen"])
            else:
                cont = "set"
                args = args[:1] if rng.random() < 0.7 else []
                if args and rng.random() < 0.3:
                    args = [_junk(rng, hashable=True)]
        if cont == "set" and len(args) > 1:
            cont = "list"          # a set with several members: duplicates collapse and the order is hash order
        return cont, args

    weights = {
        "mixed":  dict(SetParent=24, SetChildren=22, SetLR=24, Del=7, Sort=7, Extend=6, New=10),
        "slots":  dict(SetParent=10, SetChildren=25, SetLR=45, Del=8, Sort=8, Extend=2, New=2),
        "parent": dict(SetParent=55, SetChildren=10, SetLR=10, Del=8, Sort=5, Extend=10, New=2),
        "full":   dict(SetParent=45, SetChildren=25, SetLR=10, Del=3, Sort=5, Extend=10, New=2),
        "alloc":  dict(SetParent=15, SetChildren=15, SetLR=15, Del=5, Sort=5, Extend=5, New=40),
    }[stratum]
    kinds = list(weights)
    wts = [weights[k] for k in kinds]
    if stratum == "full" and n >= 4:
        # warm-up: a full parent, so that "refused when both are taken" and re-attachment are exercised
        p = rng.randrange(n)
        cs = [x for x in range(n) if x != p]
        rng.shuffle(cs)
        op = ["SetChildren", p, "list", [_A(cs[0]), _A(cs[1])], "none"]
        ops.append(op)
        sh.apply(op)
    nops = rng.randint(3, maxops)
    guard = 0
    while len(ops) < nops and guard < 200:
        guard += 1
        if ops and ops[-1][0] != "New" and rng.random() < 0.08:
            # the same call once more on the same objects (repeatability; re-attachment to the same parent)
            op = [list(x) if isinstance(x, list) else x for x in ops[-1]]
            if only_valid and not _check_valid(sh, op):
                continue
            ops.append(op)
            sh.apply(op)
            continue
        kind = rng.choices(kinds, wts)[0]
        invalid = rng.random() < invalid_rate
        if kind == "SetParent":
            c = rng.randrange(sh.n)
            if invalid:
                ch = rng.random()
                if ch < 0.2:
                    a = _junk(rng)
                elif ch < 0.35:
                    a = ["N", c]
                elif ch < 0.6:
                    d = sh.desc(c)
                    a = ["N", rng.choice(d)] if d else ["N", c]
                else:
                    fulls = [p for p in range(sh.n) if None not in sh.kids[p] and c not in sh.kids[p]]
                    a = ["N", rng.choice(fulls)] if fulls else ["N", c]
            else:
                cands = [p for p in range(sh.n) if p != c and c not in sh.anc(p)
                         and (None in sh.kids[p] or c in sh.kids[p])]
                # bias: parents that already hold a right child only / the node's own parent
                pref = [p for p in cands if sh.kids[p][0] is None and sh.kids[p][1] is not None]
                if pref and rng.random() < 0.35:
                    cands = pref
                a = ["None"] if (not cands or rng.random() < 0.12) else ["N", rng.choice(cands)]
            op = ["SetParent", c, a, fault(), rng.choice(["set", "set", "append", "rshift", "lshift"])]
        elif kind == "SetChildren":
            p = rng.randrange(sh.n)
            cont, args = pick_children(p, not invalid)
            ft = fault()
            op = ["SetChildren", p, cont, args, ft]
        elif kind == "SetLR":
            p = rng.randrange(sh.n)
            side = rng.choice(["SetLeft", "SetRight"])
            bad = set(sh.anc(p)) | {p}
            if invalid:
                ch = rng.random()
                other = sh.kids[p][1 if side == "SetLeft" else 0]
                if ch < 0.3:
                    a = _junk(rng)
                elif ch < 0.45:
                    a = ["N", p]
                elif ch < 0.7 and sh.anc(p):
                    a = ["N", rng.choice(sh.anc(p))]
                elif other is not None:
                    a = ["N", other]          # the node sitting in the other slot: refused as a duplicate
                else:
                    a = ["N", p]
            else:
                other = sh.kids[p][1 if side == "SetLeft" else 0]
                cands = [x for x in range(sh.n) if x not in bad and x != other]
                # bias: a node that currently sits in the *other-side* slot of another parent
                pref = [x for x in cands if sh.par[x] is not None and sh.par[x] != p
                        and sh.kids[sh.par[x]].index(x) == (1 if side == "SetLeft" else 0)]
                if pref and rng.random() < 0.4:
                    cands = pref
                a = ["None"] if (not cands or rng.random() < 0.15) else ["N", rng.choice(cands)]
            op = [side, p, a, fault()]
        elif kind == "Del":
            p = rng.randrange(sh.n)
            only_right = [q for q in range(sh.n) if sh.kids[q][0] is None and sh.kids[q][1] is not None]
            if only_right and rng.random() < 0.4:
                p = rng.choice(only_right)
            op = ["DelChildren", p]
        elif kind == "Sort":
            p = rng.randrange(sh.n)
            both = [q for q in range(sh.n) if None not in sh.kids[q]]
            if both and rng.random() < 0.7:
                p = rng.choice(both)
            op = ["Sort", p, [rng.randint(0, 2) for _ in range(sh.n)], rng.random() < 0.4]
        elif kind == "Extend":
            p = rng.randrange(sh.n)
            bad = set(sh.anc(p)) | {p}
            cands = [x for x in range(sh.n) if invalid or x not in bad]
            rng.shuffle(cands)
            free = sum(1 for k in sh.kids[p] if k is None)
            cs = cands[: rng.randint(0, min(3 if invalid else free, len(cands)))]
            op = ["Extend", p, cs, [fault() for _ in cs]]
        else:  # New
            if sh.n >= nmax_total:
                continue
            bad = set()
            cands = list(range(sh.n))
            pick = lambda: _A(rng.choice(cands + [None, None]))   # noqa: E731
            l, r = pick(), pick()
            if not invalid and l[0] == "N" and l == r:
                r = ["None"]
            par = ["None"]
            if rng.random() < 0.5:
                ps = [p for p in cands if (invalid or None in sh.kids[p])]
                ps = [p for p in ps if invalid or (["N", p] != l and ["N", p] != r)]
                if ps:
                    par = ["N", rng.choice(ps)]
            ch = []
            m = rng.random()
            if m < 0.25:
                ch = [l, r]
                if rng.random() < 0.5:
                    l = ["None"]
            elif m < 0.35 and invalid:
                ch = [pick(), pick()]
            elif m < 0.42 and invalid:
                ch = [l]
            if invalid and rng.random() < 0.35:
                # a non-node in left / right / children / parent of the constructor.  The constructor compares a
                # *truthy* left/right with children[i] before any setter runs, so with explicit children only
                # the truthy kind is used for left/right (the model's AJunk is truthy there).
                where = rng.choice(["l", "r", "ch", "par"])
                if where == "l":
                    l = _junk(rng, truthy=bool(ch))
                elif where == "r":
                    r = _junk(rng, truthy=bool(ch))
                elif where == "par":
                    par = _junk(rng)
                else:
                    if not ch:
                        ch = [l, r]
                        l = r = ["None"]
                    ch = list(ch)
                    ch[rng.randrange(len(ch))] = _junk(rng)
            op = ["New", l, r, par, ch, fault(), fault()]
        if only_valid and not _check_valid(sh, op):
            continue
        ops.append(op)
        sh.apply(op)
    return {"assert": True, "n": n, "prefix": [], "branches": [ops], "stratum": stratum,
            "reentrant": rng.random() < 0.3}


# -- small-scope enumeration ------------------------------------------------------------------


def reachable_states(n, cap=4000):
    """Every state the valid operations can reach on n nodes, with a shortest history (BFS over the shadow)."""
    start = Shadow(n)
    seen = {start.key(): []}
    frontier = [(start, [])]
    moves = [["SetParent", c, _A(p), "none", "set"] for c in range(n) for p in [None] + list(range(n))]
    moves += [["SetChildren", p, "list", [_A(a), _A(b)], "none"]
              for p in range(n) for a in [None] + list(range(n)) for b in [None] + list(range(n))]
    while frontier and len(seen) < cap:
        nxt = []
        for sh, hist in frontier:
            for mv in moves:
                s2 = sh.copy()
                if not s2.apply(mv):
                    continue
                k = s2.key()
                if k not in seen:
                    seen[k] = hist + [mv]
                    nxt.append((s2, hist + [mv]))
        frontier = nxt
    return list(seen.values())


def op_universe(n, prop):
    vals = [["None"]] + [["N", i] for i in range(n)]
    jvals = vals + [["Junk", "obj"], ["Junk", "0"]]
    faults = ["none", "pre", "post"]         # C20 too: a hook failure is the same user-level event in both interpreters
    use = vals if prop == "C20" else jvals
    ops = []
    for c in range(n):
        for a in use:
            for ft in faults:
                ops.append(["SetParent", c, a, ft, "set"])
    for p in range(n):
        for a in use:
            for b in use:
                for ft in faults:
                    ops.append(["SetChildren", p, "list", [a, b], ft])
        for a in vals:
            for b in vals:
                ops.append(["SetChildren", p, "tuple", [a, b], "none"])
        ops.append(["SetChildren", p, "list", [], "none"])
        ops.append(["SetChildren", p, "tuple", [], "none"])
        ops.append(["SetChildren", p, "set", [], "none"])
        if prop != "C20":
            ops.append(["SetChildren", p, "list", [], "post"])
            ops.append(["SetChildren", p, "other", [], "none"])
            ops.append(["SetChildren", p, "gen", [["None"], ["None"]], "none"])
            for a in vals:
                ops.append(["SetChildren", p, "list", [a], "none"])
                ops.append(["SetChildren", p, "set", [a], "none"])
                for b in vals:
                    ops.append(["SetChildren", p, "list", [a, b, ["None"]], "none"])
            ops.append(["SetChildren", p, "list", [["None"]] * 4, "none"])
        for side in ("SetLeft", "SetRight"):
            for a in use:
                for ft in faults:
                    ops.append([side, p, a, ft])
        ops.append(["DelChildren", p])
        for keys in (list(range(n)), list(range(n, 0, -1)), [0] * n):
            for rev in (False, True):
                ops.append(["Sort", p, keys, rev])
        for c in range(n):
            for d in range(n):
                if c != d:
                    ops.append(["Extend", p, [c, d], ["none", "none"]])
    return ops


def enumerate_cases(prop, sizes=(2, 3, 4), per_case=60):
    for n in sizes:
        univ = op_universe(n, prop)
        for hist in reachable_states(n):
            sh = Shadow(n)
            for mv in hist:
                sh.apply(mv)
            if prop == "C20":
                us = [o for o in univ if _check_valid(sh, o)]    # only calls no check (or other refusal) rejects; hooks may fail
            else:
                us = univ
            for k in range(0, len(us), per_case):
                yield f"exhaustive/n{n}", {"assert": True, "n": n, "prefix": hist,
                                           "branches": [[o] for o in us[k:k + per_case]],
                                           "stratum": f"exhaustive/n{n}"}


def corpus(prop):
    N = lambda i: ["N", i]   # noqa: E731
    NO = ["None"]
    hs = {
        # F2: del children must keep both slots; the node accepts children afterwards
        "F2-del-keeps-slots": [["SetChildren", 0, "list", [N(1), N(2)], "none"], ["DelChildren", 0],
                               ["SetLeft", 0, N(3), "none"], ["SetParent", 1, N(0), "none", "set"]],
        # F3: a tuple / the caller's list must not become the slot list
        "F3-tuple": [["SetChildren", 1, "tuple", [N(0), NO], "none"], ["SetParent", 2, N(1), "none", "set"],
                     ["SetParent", 3, N(1), "none", "set"]],
        "del-only-right": [["SetRight", 0, N(1), "none"], ["DelChildren", 0], ["SetParent", 1, N(0), "none", "set"]],
        "parent-left-before-right": [["SetRight", 0, N(1), "none"], ["SetParent", 2, N(0), "none", "set"],
                                     ["SetParent", 3, N(0), "none", "set"], ["SetParent", 1, N(0), "none", "set"]],
        "right-from-left": [["SetLeft", 0, N(1), "none"], ["SetRight", 2, N(1), "none"], ["SetRight", 0, N(3), "none"],
                            ["SetRight", 0, N(1), "none"]],
        "three-with-none": [["SetChildren", 0, "list", [N(1), N(2), NO], "none"], ["SetChildren", 0, "list", [N(1), NO, NO], "none"]],
        "reattach-same-parent": [["SetChildren", 0, "list", [NO, N(1)], "none"], ["SetParent", 1, N(0), "post", "set"],
                                 ["SetParent", 1, N(0), "none", "set"]],
    }
    if prop != "C20":
        # falsy non-node arguments (0, "", False, 0.0, (), [], {}) must be refused like any other non-node
        J = lambda k: ["Junk", k]   # noqa: E731
        hs["falsy-junk-right-left"] = [["SetLeft", 0, N(1), "none"], ["SetRight", 0, J("0"), "none"], ["SetLeft", 0, J("str"), "none"],
                                       ["SetRight", 0, J("False"), "none"], ["SetParent", 2, N(0), "none", "set"], ["DelChildren", 0]]
        hs["falsy-junk-children"] = [["SetChildren", 0, "list", [N(1), J("0.0")], "none"], ["SetChildren", 0, "tuple", [J("tuple"), N(2)], "none"],
                                     ["SetChildren", 0, "list", [J("list"), J("dict")], "post"], ["SetChildren", 0, "list", [N(1), J("obj")], "none"],
                                     ["Sort", 0, [0, 1, 2, 3, 4], False], ["SetParent", 3, N(0), "none", "append"]]
        hs["falsy-junk-ctor"] = [["New", J("0"), NO, NO, [], "none", "none"], ["New", NO, J("str"), N(0), [], "none", "none"],
                                 ["New", NO, NO, NO, [N(1), J("False")], "none", "none"], ["New", NO, NO, J("0"), [], "none", "none"],
                                 ["New", J("obj"), NO, NO, [N(1), NO], "none", "none"]]
        hs["rollback-two-orphans"] = [["SetChildren", 0, "list", [N(1), N(2)], "post"], ["SetChildren", 3, "list", [N(2), N(1)], "none"],
                                      ["SetChildren", 0, "list", [N(2), N(1)], "post"]]
        hs["full-inside-try"] = [["SetChildren", 0, "list", [N(1), N(2)], "none"], ["SetLeft", 4, N(3), "none"],
                                 ["SetParent", 3, N(0), "none", "set"], ["SetParent", 3, N(0), "post", "append"]]
        hs["ctor-half"] = [["SetLeft", 1, N(0), "none"], ["New", NO, NO, N(1), [N(1), NO], "none", "none"],
                           ["New", N(0), NO, NO, [], "none", "post"]]
    else:
        # C20: hook failures are allowed (same fault queue in both interpreters), check-rejected calls are not
        hs["rollback-two-orphans"] = [["SetChildren", 0, "list", [N(1), N(2)], "post"], ["SetChildren", 3, "list", [N(2), N(1)], "none"],
                                      ["SetChildren", 0, "list", [N(2), N(1)], "post"], ["SetParent", 1, N(4), "post", "set"],
                                      ["SetParent", 2, NO, "pre", "set"], ["SetRight", 3, N(4), "post"]]
        hs["same-parent-post-fault"] = [["SetChildren", 0, "list", [NO, N(1)], "none"], ["SetParent", 1, N(0), "post", "set"],
                                        ["SetParent", 1, N(0), "post", "append"], ["SetLeft", 0, N(2), "post"], ["SetLeft", 0, N(2), "none"],
                                        ["SetParent", 2, N(3), "post", "set"], ["Extend", 4, [1, 2], ["none", "post"]]]
    for k, ops in hs.items():
        yield k, {"assert": True, "n": 5, "prefix": [], "branches": [ops], "stratum": "corpus"}


def generate(prop, rng, tier):
    count = {"quick": 900, "thorough": 12000, "search": 2500}[tier]
    fr = {"C11": 0.10, "C02": 0.40, "C20": 0.15}[prop]
    ir = {"C11": 0.20, "C02": 0.25, "C20": 0.0}[prop]
    if tier == "thorough":
        yield from enumerate_cases(prop)
    else:
        # the two- and three-node scopes are cheap enough for every run
        yield from enumerate_cases(prop, sizes=(2, 3), per_case=80)
    for i in range(count):
        if prop != "C20" and rng.random() < 0.2:
            # the same invariants with BIGTREE_CONF_ASSERTIONS="": histories no type/loop check would reject
            # (hook failures included), run in the no-assertion child and compared with the model under
            # `assertions := false`
            c = gen_case(rng, prop, fault_rate=max(fr, 0.15), invalid_rate=0.0, only_valid=True)
            c["assert"] = False
            c["stratum"] = "noassert/" + c["stratum"]
        else:
            c = gen_case(rng, prop, fault_rate=fr, invalid_rate=ir, only_valid=(prop == "C20"))
        if rng.random() < 0.25:
            c["cls"] = "valeq"
        yield c["stratum"], c
    if prop != "C20":
        # every argument shape the checks-on setter accepts, with the checks off
        N = lambda i: ["N", i]   # noqa: E731
        NO = ["None"]
        shapes = [["SetChildren", 0, cont, [], ft] for cont in ("list", "tuple", "set") for ft in ("none", "post")]
        shapes += [["SetChildren", 0, cont, args, "none"] for cont in ("list", "tuple")
                   for args in ([N(1), N(2)], [N(1), NO], [NO, N(1)], [NO, NO])]
        for k, sh in enumerate(shapes):
            ops = [["SetChildren", 0, "list", [N(1), N(2)], "none"], sh, ["SetParent", 3, N(0), "none", "set"],
                   ["SetLeft", 0, N(4), "none"], ["DelChildren", 0], ["SetRight", 0, N(2), "none"]]
            yield "noassert/shapes", {"assert": False, "n": 5, "prefix": [], "branches": [ops], "stratum": "noassert/shapes"}


def shrink_candidates(prop, case):
    if len(case["branches"]) > 1:
        for b in case["branches"]:
            c = dict(case)
            c["branches"] = [b]
            yield c
        return
    ops = case["branches"][0]
    pre = case["prefix"]
    for k in range(len(ops) - 1, 0, -1):
        c = dict(case)
        c["branches"] = [ops[:k]]
        yield c
    for k in range(len(ops)):
        c = dict(case)
        c["branches"] = [ops[:k] + ops[k + 1:]]
        yield c
    for k in range(len(pre)):
        c = dict(case)
        c["prefix"] = pre[:k] + pre[k + 1:]
        yield c
    for k, o in enumerate(ops):
        if o[0] in ("SetParent", "SetLeft", "SetRight") and o[3] != "none":
            c = dict(case)
            c["branches"] = [ops[:k] + [o[:3] + ["none"] + o[4:]] + ops[k + 1:]]
            yield c
        if o[0] == "SetChildren" and o[4] != "none":
            c = dict(case)
            c["branches"] = [ops[:k] + [o[:4] + ["none"]] + ops[k + 1:]]
            yield c


def size(case):
    def osz(o):
        return 1 + (len(o[3]) if o[0] == "SetChildren" else len(o[2]) if o[0] == "Extend" else 0)
    return 1000 * (len(case["branches"]) - 1) + sum(osz(o) for b in case["branches"] for o in b) + sum(osz(o) for o in case["prefix"])


def nontrivial(prop, case, obs):
    # at least 2 nodes linked at some point, and accepted structural changes
    steps = [st for tr in obs["on"] for st in tr]
    acc = sum(1 for l, code in steps if code == 0) + len(case["prefix"])
    rej = sum(1 for l, code in steps if code != 0)
    linked = max([sum(1 for p, cs, lr in l if p is not None) for l, code in steps]
                 + [sum(1 for p, cs, lr in obs["pre"] if p is not None)], default=0)
    if prop == "C02":
        return acc >= 1 and rej >= 1 and linked >= 1
    return acc >= 2 and linked >= 1


def sample(prop, case, obs):
    tr = obs["on"][0] if obs["on"] else []
    return {"n": case["n"], "prefix": case["prefix"], "branches": len(case["branches"]), "first_branch": case["branches"][0] if case["branches"] else [],
            "outcomes": [code for _, code in tr], "final_links": [[p, cs] for p, cs, lr in tr[-1][0]] if tr else []}


def rule(prop):
    return ("random operation histories (<= 14 ops, 3-7 initial BinaryNode objects with int names and one extra attribute, plus up to 3 "
            "constructor calls with left/right/parent/children combinations) over a BinaryNode subclass whose documented hooks read the "
            ".children/.left/.right/.parent of every node involved, inject pre/post faults, and in 30% of the cases also re-assign "
            "(benignly, re-entrantly) the children every involved node already has; entry points: parent setter, append, >>, <<, extend, "
            "children setter (list/tuple/empty or one-element set/dict view/generator; the same tuple object re-used), left/right setters, children deleter, sort(key[, reverse]), "
            "constructor; strata: op mix (mixed/slots/parent/full/alloc) incl. None slots, wrong lengths, non-nodes (truthy: object, 1, True, "
            "'x', Node, BaseNode; falsy: 0, '', False, 0.0, (), [], {}), loops, duplicates, full parents, the same call repeated; every list "
            "argument is ONE caller-owned list object per history, overwritten in place after each call (an implementation that keeps or "
            "writes it is flagged); every run: every state reachable on 2 and 3 nodes x every operation (thorough: also 4 nodes); observed "
            "after every step, for every node: parent, node.children, node.left, node.right (exception or a non-node value distinguishable), "
            "accepted/rejected; non-trivial = >=2 accepted ops and >=1 linked node (C02: >=1 accepted and >=1 rejected/failing op); "
            "20% of the C11/C02 histories (check-valid ones, hook failures included) and a fixed set of accepted argument shapes ([], (), set(), "
            "None slots) run with BIGTREE_CONF_ASSERTIONS=\"\" in the child interpreter against the model under assertions := false; 25% of "
            "the histories use a subclass with __eq__/__hash__ by (distinct) name; C20: no "
            "check-rejected ops but pre/post hook failures on ~15% of the ops (same fault queue in both interpreters), each case additionally run in a child interpreter with BIGTREE_CONF_ASSERTIONS=\"\" and a battery of "
            "library calls (in/pre/post/level/zigzag iterators, descendants, leaves, max_depth, diameter, print_tree, tree_to_dict, "
            "tree_to_nested_dict, clone_tree, copy, prune_tree, get_subtree, name/val/attributes/is_leaf/depth/path_name/siblings) compared "
            "across the two interpreters; distinct by canonical JSON hash")


def explain(prop, case, obs, flags):
    from ._base import explain as base
    return base(prop, case, obs, flags)


def trusted_base(prop):
    tb = COMMON_TB + ["fault injection through the documented _BinaryNode__pre/post_assign_* extension points"]
    if prop == "C20":
        tb.append("harness/noassert.py: child interpreter started with BIGTREE_CONF_ASSERTIONS=\"\" (its ASSERTIONS flag is read back and checked)")
    return tb


def partial_clauses(prop):
    """deliberately accepted blind spots of this engine's correspondence (all theorems of the model are proved)"""
    common = [
        "binary: outcomes are compared as accepted/rejected only (the exception class is not part of the property)",
        "binary: not exercised: hooks that change links with a net effect (only reading hooks and a net-nil re-assignment are used), "
        "sort() without key (nodes are unordered: TypeError), extend() with a non-list iterable, append()/>> with a non-node, "
        "2-element set arguments (hash order; the model declines: Unmodelled), private fields (_BinaryNode__children/__parent) are "
        "read only through the public getters",
        "binary: constructor: a FALSY non-node as left/right together with explicit children is not generated (the constructor's "
        "mismatch test is truthiness-based; the model's non-node is truthy there)",
        "binary: user subclasses: value-equal twins (__eq__/__hash__ by name with EQUAL names) and subclasses whose instances can be "
        "falsy (__len__/__bool__) are not generated: the unchanged setters are identity-/truthiness-sensitive there (reported witnesses); "
        "only a value-semantics subclass with pairwise distinct names is exercised",
        "binary: a write to the caller's list is reported by flipping the observed accept/reject bit (reported as a correspondence "
        "failure, not as a false property predicate)",
    ]
    if prop == "C02":
        return common + ["binary: extend and the constructor are sequences of setter calls; atomicity is checked and proved per setter "
                         "call, their earlier accepted assignments stay (binary_atomic excludes BExtend/BNew)"]
    if prop == "C20":
        return common + ["binary: with the checks off only histories in which no type/loop check rejects a call are modelled (hook failures included) (anything a guard "
                         "would reject is Unmodelled and not generated); the prefix of an enumeration case is observed at its end only; "
                         "the library battery is compared between the interpreters, not against a model"]
    return common
