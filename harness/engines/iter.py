"""Engine `iter` (C04): the seven tree iterators of bigtree/utils/iterators.py on ordered trees
(BaseNode / Node) and on binary trees with empty slots (BinaryNode).

case = {"kind": "rose"|"bin", "cls": "Node"|"BaseNode"|"BinaryNode",
        "tree": [id, [child, ...]]            (rose)   |   [id, left|None, right|None]   (bin),
        "runs": [{"start": id, "f": None|[ids], "s": None|[ids], "m": int}, ...], "stratum": str}
Node numbers (ids) are arbitrary distinct naturals; they become the tags of the Coq tree, and the
predicates `filter_condition` / `stop_condition` are lambdas testing membership of the node's number
in the table (None = the argument is not passed).
obs = one dict per run with the sequences of node numbers yielded by each iterator.
"""
from ..core import clist, copt
from ._base import *  # noqa
from ._base import COMMON_TB

SERVES = ["C04"]
COQ_TARGETS = ["theories/Corr/IterCorr.vo"]
CASES_PER_FILE = 200
FOREIGN = 99999     # number reported for a yielded object that is not a node of the tree


def coq_header(prop):
    return "From BT Require Import Base.Prelude Base.Rose Spec.PC04 Algo.Iter Corr.IterCorr."


def coq_case_type(prop):
    return "icase"


def coq_check(prop):
    return "check_C04"


# ---------------------------------------------------------------------------------------------
# tree helpers (pure JSON side)


def rose_nodes(t, depth=1, pos=()):
    """pre-order list of (id, depth, position, subtree)"""
    out = [(t[0], depth, pos, t)]
    for i, k in enumerate(t[1]):
        out.extend(rose_nodes(k, depth + 1, pos + (i,)))
    return out


def bin_nodes(b, depth=1, pos=()):
    out = [(b[0], depth, pos, b)]
    for i in (0, 1):
        k = b[1 + i]
        if k is not None:
            out.extend(bin_nodes(k, depth + 1, pos + (i,)))
    return out


def nodes_of(case):
    return rose_nodes(case["tree"]) if case["kind"] == "rose" else bin_nodes(case["tree"])


# ---------------------------------------------------------------------------------------------
# implementation side


def _build_rose(t, cls, reg):
    kids = [_build_rose(k, cls, reg) for k in t[1]]
    if cls.__name__ == "BaseNode":
        n = cls(children=kids)
    else:
        n = cls("n%d" % t[0], children=kids)
    reg[t[0]] = n
    return n


def _build_bin(b, cls, reg):
    l = None if b[1] is None else _build_bin(b[1], cls, reg)
    r = None if b[2] is None else _build_bin(b[2], cls, reg)
    n = cls("n%d" % b[0], left=l, right=r)
    reg[b[0]] = n
    return n


def run_impl(prop, case):
    from bigtree.node.basenode import BaseNode
    from bigtree.node.binarynode import BinaryNode
    from bigtree.node.node import Node
    from bigtree.utils import iterators as it

    reg = {}
    if case["kind"] == "rose":
        _build_rose(case["tree"], {"Node": Node, "BaseNode": BaseNode}[case["cls"]], reg)
    else:
        _build_bin(case["tree"], BinaryNode, reg)
    num = {id(n): i for i, n in reg.items()}

    def nm(x):
        return num.get(id(x), FOREIGN)

    def pred(tab):
        if tab is None:
            return None
        s = frozenset(tab)
        return lambda node: num.get(id(node), FOREIGN) in s

    def flat_eager(gen):
        # every node is read as soon as it is yielded
        return [nm(x) for x in gen]

    def flat_late(gen):
        # the caller collects the whole iterator first and looks at the nodes afterwards
        items = list(gen)
        return [nm(x) for x in items]

    def groups_eager(gen):
        return [[nm(x) for x in g] for g in gen]

    def groups_late(gen):
        groups = list(gen)
        return [[nm(x) for x in g] for g in groups]

    out = []
    for run in case["runs"]:
        start = reg[run["start"]]
        kw = {"filter_condition": pred(run["f"]), "stop_condition": pred(run["s"]), "max_depth": run["m"]}
        ikw = {"filter_condition": kw["filter_condition"], "max_depth": run["m"]}
        o = None
        for flat, groups in ((flat_eager, groups_eager), (flat_late, groups_late)):
            cur = {
                "pre": flat(it.preorder_iter(start, **kw)),
                "post": flat(it.postorder_iter(start, **kw)),
                "lo": flat(it.levelorder_iter(start, **kw)),
                "zz": flat(it.zigzag_iter(start, **kw)),
                "log": groups(it.levelordergroup_iter(start, **kw)),
                "zzg": groups(it.zigzaggroup_iter(start, **kw)),
                "in": flat(it.inorder_iter(start, **ikw)) if case["kind"] == "bin" else [],
            }
            if o is None:
                o = cur
            else:
                # observation after full materialisation; stored only when it differs from the eager one
                o["late"] = None if cur == {k: o[k] for k in cur} else cur
        out.append(o)
    return out


# ---------------------------------------------------------------------------------------------
# Coq literals


def _ctree(t):
    return "N %d %s" % (t[0], clist(_ctree(k) for k in t[1]))


def _cbtree(b):
    def slot(k):
        return "None" if k is None else "(Some (%s))" % _cbtree(k)
    return "BN %d %s %s" % (b[0], slot(b[1]), slot(b[2]))


def _cl(xs):
    return clist(str(int(x)) for x in xs)


def _cll(xss):
    return clist(_cl(xs) for xs in xss)


def emit(prop, case, obs):
    pos = {i: p for i, _, p, _ in nodes_of(case)}
    runs = []
    assert len(obs) == len(case["runs"])
    for run, o0 in zip(case["runs"], obs):
        # both observations (eager; after list(iterator)) must equal the model and satisfy the property:
        # when they differ the run is emitted twice, once with each observation
        for o in [o0] + ([o0["late"]] if o0.get("late") is not None else []):
            io = "(IO %s %s %s %s %s %s)" % (_cl(o["pre"]), _cl(o["post"]), _cl(o["lo"]), _cl(o["zz"]),
                                             _cll(o["log"]), _cll(o["zzg"]))
            runs.append("IR %s %s %s %d %s %s" % (_cl(pos[run["start"]]), copt(run["f"], _cl), copt(run["s"], _cl),
                                                   run["m"], io, _cl(o["in"])))
    if case["kind"] == "rose":
        return "CRose (%s) %s" % (_ctree(case["tree"]), clist(runs))
    return "CBin (%s) %s" % (_cbtree(case["tree"]), clist(runs))


# ---------------------------------------------------------------------------------------------
# generation: shapes


def _number(shape, rng=None):
    """shape = nested lists of children; returns [id, [..]] with pre-order ids (or shuffled ids)."""
    cnt = [0]

    def count(s):
        return 1 + sum(count(k) for k in s)
    n = count(shape)
    ids = list(range(n))
    if rng is not None and rng.random() < 0.3:
        rng.shuffle(ids)

    def go(s):
        i = ids[cnt[0]]
        cnt[0] += 1
        return [i, [go(k) for k in s]]
    return go(shape)


def _number_bin(shape, rng=None):
    cnt = [0]

    def count(s):
        return 0 if s is None else 1 + count(s[0]) + count(s[1])
    ids = list(range(count(shape)))
    if rng is not None and rng.random() < 0.3:
        rng.shuffle(ids)

    def go(s):
        if s is None:
            return None
        i = ids[cnt[0]]
        cnt[0] += 1
        l = go(s[0])
        r = go(s[1])
        return [i, l, r]
    return go(shape)


def shape_from_parents(par):
    kids = [[] for _ in par]
    for c, p in enumerate(par):
        if p is not None:
            kids[p].append(c)

    def go(x):
        return [go(c) for c in kids[x]]
    return go(0)


def gen_shape(rng, stratum):
    if stratum == "path":
        n = rng.randint(2, 8)
        par = [None] + list(range(n - 1))
    elif stratum == "star":
        n = rng.randint(3, 8)
        par = [None] + [0] * (n - 1)
    elif stratum == "wide":
        n = rng.randint(4, 12)
        par = [None]
        deg = [0]
        for c in range(1, n):
            cands = [p for p in range(c) if deg[p] < 6]
            # prefer parents that already have children: fan-out >= 3 is the point of this stratum
            w = [1 + 3 * deg[p] for p in cands]
            p = rng.choices(cands, w)[0]
            par.append(p)
            deg[p] += 1
            deg.append(0)
    elif stratum == "deep":
        n = rng.randint(5, 12)
        par = [None]
        dep = [1]
        for c in range(1, n):
            cands = [p for p in range(c) if dep[p] < 8]
            w = [dep[p] ** 2 for p in cands]
            p = rng.choices(cands, w)[0]
            par.append(p)
            dep.append(dep[p] + 1)
    else:  # mixed
        n = rng.randint(3, 12)
        par = [None] + [rng.randrange(c) for c in range(1, n)]
    return shape_from_parents(par)


def gen_bin_shape(rng, n, deep=False):
    """random binary tree shape with n nodes: (left, right) tuples / None"""
    if n == 0:
        return None
    if deep and n > 1 and rng.random() < 0.6:
        k = 0 if rng.random() < 0.5 else n - 1
    else:
        k = rng.randint(0, n - 1)
    return (gen_bin_shape(rng, k, deep), gen_bin_shape(rng, n - 1 - k, deep))


def all_shapes(n):
    """all ordered trees with n nodes"""
    def forests(k):     # ordered forests with k nodes
        if k == 0:
            yield []
            return
        for first in range(1, k + 1):
            for t in trees(first):
                for rest in forests(k - first):
                    yield [t] + rest

    def trees(k):
        for f in forests(k - 1):
            yield f
    return list(trees(n))


def all_bin_shapes(n):
    if n == 0:
        return [None]
    out = []
    for k in range(n):
        for l in all_bin_shapes(k):
            for r in all_bin_shapes(n - 1 - k):
                out.append((l, r))
    return out


# ---------------------------------------------------------------------------------------------
# generation: runs


def _levels(nodes, start_id):
    """ids of the subtree of start grouped by relative level"""
    pos = {i: p for i, _, p, _ in nodes}
    sp = pos[start_id]
    lv = {}
    for i, d, p, _ in nodes:
        if p[:len(sp)] == sp:
            lv.setdefault(len(p) - len(sp), []).append(i)
    return [lv[k] for k in sorted(lv)]


def gen_run(rng, nodes):
    ids = [i for i, _, _, _ in nodes]
    depth = {i: d for i, d, _, _ in nodes}
    maxd = max(depth.values())
    start = ids[0] if rng.random() < 0.55 else rng.choice(ids)
    lv = _levels(nodes, start)
    sub = [i for l in lv for i in l]
    r = rng.random()
    if r < 0.35:
        f = None
    elif r < 0.9:
        p = rng.choice([0.3, 0.5, 0.8])
        f = sorted(i for i in ids if rng.random() < p)
    else:
        f = []
    r = rng.random()
    if r < 0.35:
        s = None
    elif r < 0.65:
        s = sorted(rng.sample(sub, min(len(sub), rng.randint(1, 2))))
    elif r < 0.85:
        # every node of one level (trailing empty group), sometimes one survivor
        k = rng.randrange(len(lv))
        s = list(lv[k])
        if len(s) > 1 and rng.random() < 0.4:
            s.remove(rng.choice(s))
        s = sorted(s)
    elif r < 0.93:
        p = rng.choice([0.2, 0.4])
        s = sorted(i for i in ids if rng.random() < p)
    else:
        s = []
    r = rng.random()
    if r < 0.4:
        m = 0
    else:
        m = rng.randint(max(1, depth[start] - 1), maxd + 1)
    return {"start": start, "f": f, "s": s, "m": m}


def systematic_runs(nodes):
    """deterministic run set used by the small-scope exhaustive pass"""
    ids = [i for i, _, _, _ in nodes]
    depth = {i: d for i, d, _, _ in nodes}
    root = ids[0]
    runs = []
    for st in ids:
        runs.append({"start": st, "f": None, "s": None, "m": 0})
        for m in sorted({depth[st] - 1, depth[st], depth[st] + 1, depth[st] + 2}):
            if m >= 1:
                runs.append({"start": st, "f": None, "s": None, "m": m})
    for x in ids:
        runs.append({"start": root, "f": None, "s": [x], "m": 0})
    for l in _levels(nodes, root):
        runs.append({"start": root, "f": None, "s": sorted(l), "m": 0})
        runs.append({"start": root, "f": sorted(l), "s": None, "m": 0})
    runs.append({"start": root, "f": [i for i in ids if i % 2 == 0], "s": None, "m": 0})
    runs.append({"start": root, "f": [i for i in ids if i % 2 == 1], "s": [ids[-1]], "m": 0})
    runs.append({"start": root, "f": [], "s": [], "m": 0})
    return runs


def _mk(kind, cls, tree, runs, stratum):
    return {"kind": kind, "cls": cls, "tree": tree, "runs": runs, "stratum": stratum}


def exhaustive(rng, max_rose, max_bin, extra_random=2, per_case=4):
    for n in range(1, max_rose + 1):
        for k, sh in enumerate(all_shapes(n)):
            tree = _number(sh)
            nodes = rose_nodes(tree)
            runs = systematic_runs(nodes) + [gen_run(rng, nodes) for _ in range(extra_random)]
            cls = "Node" if k % 2 == 0 else "BaseNode"
            for j in range(0, len(runs), per_case):
                yield "exhaustive/rose%d" % n, _mk("rose", cls, tree, runs[j:j + per_case], "exhaustive")
    for n in range(1, max_bin + 1):
        for sh in all_bin_shapes(n):
            tree = _number_bin(sh)
            nodes = bin_nodes(tree)
            runs = systematic_runs(nodes) + [gen_run(rng, nodes) for _ in range(extra_random)]
            for j in range(0, len(runs), per_case):
                yield "exhaustive/bin%d" % n, _mk("bin", "BinaryNode", tree, runs[j:j + per_case], "exhaustive")


ROSE_STRATA = ["wide", "deep", "mixed", "path", "star"]


def gen_case(rng, nruns=2):
    r = rng.random()
    if r < 0.3:
        deep = rng.random() < 0.4
        n = rng.randint(1, 10)
        tree = _number_bin(gen_bin_shape(rng, n, deep), rng)
        nodes = bin_nodes(tree)
        st = "bin-deep" if deep else "bin"
        return _mk("bin", "BinaryNode", tree, [gen_run(rng, nodes) for _ in range(nruns)], st)
    stratum = rng.choices(ROSE_STRATA, [4, 4, 4, 1, 1])[0]
    tree = _number(gen_shape(rng, stratum), rng)
    nodes = rose_nodes(tree)
    cls = rng.choice(["Node", "Node", "BaseNode"])
    return _mk("rose", cls, tree, [gen_run(rng, nodes) for _ in range(nruns)], stratum)


def corpus(prop):
    out = []
    # trailing empty group: every node of the last level reached is stopped
    t = [0, [[1, [[3, []]]], [2, []]]]
    out.append(("trailing-empty-group", _mk("rose", "Node", t, [
        {"start": 0, "f": None, "s": [1, 2], "m": 0},
        {"start": 0, "f": None, "s": [0], "m": 0},
        {"start": 1, "f": None, "s": None, "m": 1},
        {"start": 0, "f": None, "s": [3], "m": 2}], "corpus")))
    # zigzag below depth 4, fan-out 3, stop below depth 3
    t = [0, [[1, [[2, [[3, [[4, [[5, []], [6, []], [7, []]]], [8, [[9, []], [10, []]]]]]]]]]]]
    out.append(("deep-zigzag", _mk("rose", "Node", t, [
        {"start": 0, "f": None, "s": None, "m": 0},
        {"start": 0, "f": None, "s": [4], "m": 0},
        {"start": 2, "f": None, "s": None, "m": 5},
        {"start": 2, "f": [5, 7, 9, 10, 3], "s": [8], "m": 6}], "corpus")))
    b = [0, [1, None, [2, [3, None, None], None]], [4, [5, None, [6, None, None]], None]]
    out.append(("binary-slots", _mk("bin", "BinaryNode", b, [
        {"start": 0, "f": None, "s": None, "m": 0},
        {"start": 0, "f": None, "s": [2], "m": 3},
        {"start": 4, "f": [5, 6], "s": None, "m": 3},
        {"start": 1, "f": None, "s": [3], "m": 0}], "corpus")))
    return out


def generate(prop, rng, tier):
    if tier == "quick":
        yield from exhaustive(rng, 4, 3, extra_random=1)
        count = 2000
    elif tier == "thorough":
        yield from exhaustive(rng, 6, 5)
        count = 20000
    else:
        yield from exhaustive(rng, 5, 4)
        count = 4000
    for _ in range(count):
        c = gen_case(rng, nruns=2 if tier != "thorough" else 3)
        yield f"{c['cls']}/{c['stratum']}", c


# ---------------------------------------------------------------------------------------------
# shrinking, evidence


def _remove_leaf(case, leaf):
    def go_r(t):
        return [t[0], [go_r(k) for k in t[1] if not (k[0] == leaf and not k[1])]]

    def go_b(b):
        if b is None:
            return None
        if b[0] == leaf and b[1] is None and b[2] is None:
            return None
        return [b[0], go_b(b[1]), go_b(b[2])]
    return go_r(case["tree"]) if case["kind"] == "rose" else go_b(case["tree"])


def shrink_candidates(prop, case):
    runs = case["runs"]
    if len(runs) > 1:
        for k in range(len(runs)):
            c = dict(case)
            c["runs"] = [runs[k]]
            yield c
    nodes = nodes_of(case)
    starts = {r["start"] for r in runs}
    root = nodes[0][0]
    for i, _, _, sub in nodes:
        leaf = (not sub[1]) if case["kind"] == "rose" else (sub[1] is None and sub[2] is None)
        if leaf and i != root and i not in starts:
            c = dict(case)
            c["tree"] = _remove_leaf(case, i)
            yield c
    for k, r in enumerate(runs):
        for key in ("f", "s"):
            if r[key] is not None:
                c = dict(case)
                c["runs"] = runs[:k] + [dict(r, **{key: None})] + runs[k + 1:]
                yield c
                for j in range(len(r[key])):
                    c = dict(case)
                    c["runs"] = runs[:k] + [dict(r, **{key: r[key][:j] + r[key][j + 1:]})] + runs[k + 1:]
                    yield c
        if r["m"]:
            c = dict(case)
            c["runs"] = runs[:k] + [dict(r, m=0)] + runs[k + 1:]
            yield c
        if r["start"] != root:
            c = dict(case)
            c["runs"] = runs[:k] + [dict(r, start=root)] + runs[k + 1:]
            yield c


def size(case):
    return 3 * len(nodes_of(case)) + sum(
        4 + (0 if r["f"] is None else 1 + len(r["f"])) + (0 if r["s"] is None else 1 + len(r["s"]))
        + (1 if r["m"] else 0) + (1 if r["start"] != case["tree"][0] else 0) for r in case["runs"])


def nontrivial(prop, case, obs):
    return len(nodes_of(case)) >= 3 and any(len(o["pre"]) >= 2 for o in obs)


def sample(prop, case, obs):
    return {"kind": case["kind"], "class": case["cls"], "tree": case["tree"], "runs": case["runs"], "yielded": obs}


def rule(prop):
    return ("ordered trees (BaseNode/Node; strata wide fan-out<=6 / deep depth<=8 / mixed / path / star, <=12 nodes) and binary "
            "trees with empty slots (BinaryNode, <=10 nodes) x start node (root or inner) x filter/stop tables (absent, random, "
            "whole level stopped, empty) x max_depth (0 or around the start depth .. tree depth+1); all 7 iterators per run, each observed twice: "
            "nodes/groups read as they are yielded, and read only after the whole iterator has been collected with list(); "
            "plus every ordered tree with <=4 (thorough: <=6) nodes and every binary tree with <=3 (thorough: <=5) nodes under a "
            "systematic run set; non-trivial = tree has >=3 nodes and some run yields >=2 nodes; distinct by canonical JSON hash")


def explain(prop, case, obs, flags):
    from ._base import explain as base
    msg = base(prop, case, obs, flags)
    if isinstance(obs, list) and any(isinstance(o, dict) and o.get("late") is not None for o in obs):
        keys = sorted({k for o in obs if o.get("late") for k in o["late"] if o["late"][k] != o[k]})
        msg += ("; what a caller sees after collecting the whole iterator (list(it), then reading the items) differs from "
                "what it sees reading each item as it is yielded, for: " + ", ".join(keys))
    return msg


def trusted_base(prop):
    return COMMON_TB + ["filter/stop conditions are exercised as membership tests on node identity (finite tables); "
                        "conditions with side effects or that inspect the tree while it is iterated are outside the model"]


def partial_clauses(prop):
    return []


def assumptions(prop):
    return ["filter_condition / stop_condition are pure total boolean functions of the node (None = absent)",
            "max_depth is a natural number (0 = no limit); negative or non-integer limits are outside the model",
            "nodes are always truthy (no subclass defines __bool__/__len__), as for BaseNode/Node/BinaryNode"]
