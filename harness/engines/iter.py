"""Engine `iter` (C04): the seven tree iterators of bigtree/utils/iterators.py on ordered trees
(BaseNode / Node) and on binary trees with empty slots (BinaryNode).

case = {"kind": "rose"|"bin", "cls": "Node"|"BaseNode"|"BinaryNode",
        "tree": [id, [child, ...]]            (rose)   |   [id, left|None, right|None]   (bin),
        "runs": [{"start": id, "f": None|[ids], "s": None|[ids], "m": int}, ...], "stratum": str}
Node numbers (ids) are arbitrary distinct naturals; they become the tags of the Coq tree, and the
predicates `filter_condition` / `stop_condition` are lambdas testing membership of the node's number
in the table (None = the argument is not passed).
obs = one dict per run with the sequences of node numbers yielded by each iterator.
"""
from ..core import clist, copt
from ._base import *  # noqa
from ._base import COMMON_TB

SERVES = ["C04"]
COQ_TARGETS = ["theories/Corr/IterCorr.vo"]
CASES_PER_FILE = 200
FOREIGN = 99999     # number reported for a yielded object that is not a node of the tree


def coq_header(prop):
    return "From BT Require Import Base.Prelude Base.Rose Spec.PC04 Algo.Iter Corr.IterCorr."


def coq_case_type(prop):
    return "icase"


def coq_check(prop):
    return "check_C04"


# ---------------------------------------------------------------------------------------------
# tree helpers (pure JSON side)


def rose_nodes(t, depth=1, pos=()):
    """pre-order list of (id, depth, position, subtree)"""
    out = [(t[0], depth, pos, t)]
    for i, k in enumerate(t[1]):
        out.extend(rose_nodes(k, depth + 1, pos + (i,)))
    return out


def bin_nodes(b, depth=1, pos=()):
    out = [(b[0], depth, pos, b)]
    for i in (0, 1):
        k = b[1 + i]
        if k is not None:
            out.extend(bin_nodes(k, depth + 1, pos + (i,)))
    return out


def nodes_of(case):
    return rose_nodes(case["tree"]) if case["kind"] == "rose" else bin_nodes(case["tree"])


# ---------------------------------------------------------------------------------------------
# implementation side


class Shadow:
    """links of the nodes by number (harness-side reference for structural edits)"""

    def __init__(self, kind, tree):
        self.kind = kind
        self.par = {}
        self.kids = {}

        def go(t, parent):
            ks = t[1] if kind == "rose" else [t[1], t[2]]
            self.par[t[0]] = parent
            self.kids[t[0]] = [None if k is None else k[0] for k in ks]
            for k in ks:
                if k is not None:
                    go(k, t[0])
        go(tree, None)

    def anc(self, x):
        out = []
        while self.par[x] is not None:
            x = self.par[x]
            out.append(x)
        return out

    def root(self, x):
        a = self.anc(x)
        return a[-1] if a else x

    def depth(self, x):
        return 1 + len(self.anc(x))

    def sub(self, x):
        out = [x]
        for k in self.kids[x]:
            if k is not None:
                out.extend(self.sub(k))
        return out

    def height(self, x):
        return 1 + max([self.height(k) for k in self.kids[x] if k is not None], default=0)

    def to_tree(self, x):
        if self.kind == "rose":
            return [x, [self.to_tree(k) for k in self.kids[x]]]
        l, r = self.kids[x]
        return [x, None if l is None else self.to_tree(l), None if r is None else self.to_tree(r)]

    def _unlink(self, x):
        p = self.par[x]
        if p is not None:
            if self.kind == "rose":
                self.kids[p].remove(x)
            else:
                self.kids[p][self.kids[p].index(x)] = None
        self.par[x] = None

    def _names_ok(self, p, names):
        if names is None:
            return True
        ns = [names[k] for k in self.kids[p] if k is not None]
        return len(set(ns)) == len(ns)

    def apply(self, e, names=None):
        """performs the edit; False (state possibly changed: callers work on a copy) when it is not a legal call"""
        k = e[0]
        if k == "read":
            return e[2] in self.par
        if k == "move":                       # x.parent = p   (also >> / << / append)
            x, p = e[1], e[2]
            if x not in self.par or p not in self.par or x == p or x in self.anc(p):
                return False
            if self.kind == "bin":
                if self.par[x] == p:
                    # leaves its slot and takes the first free one
                    self._unlink(x)
                else:
                    if None not in self.kids[p]:
                        return False
                    self._unlink(x)
                self.kids[p][self.kids[p].index(None)] = x
            else:
                self._unlink(x)
                self.kids[p].append(x)
            self.par[x] = p
            return self._names_ok(p, names)
        if k == "detach":                     # x.parent = None
            if e[1] not in self.par:
                return False
            self._unlink(e[1])
            return True
        if k == "delchildren":                # del p.children
            if e[1] not in self.par:
                return False
            for c in list(self.kids[e[1]]):
                if c is not None:
                    self._unlink(c)
            return True
        if k == "sort":                       # p.sort(key=node number, reverse=)
            if self.kind != "rose" or e[1] not in self.par:
                return False
            self.kids[e[1]].sort(reverse=bool(e[2]))
            return True
        if k == "setchildren":                # p.children = [...]
            p, new = e[1], list(e[2])
            real = [c for c in new if c is not None]
            if p not in self.par or len(set(real)) != len(real) or any(c not in self.par for c in real):
                return False
            if p in real or any(c in self.anc(p) for c in real):
                return False
            if self.kind == "bin" and len(new) != 2:
                return False
            if self.kind == "rose" and None in new:
                return False
            for c in list(self.kids[p]):
                if c is not None:
                    self._unlink(c)
            for c in real:
                self._unlink(c)
                self.par[c] = p
            self.kids[p] = new if self.kind == "rose" else list(new)
            return self._names_ok(p, names)
        return False


def phase_trees(case):
    """recomputes the 'tree' of every phase from the edits; None when an edit is not a legal call"""
    sh = Shadow(case["kind"], case["tree"])
    names = None if case["cls"] in ("BaseNode", "SubBase") else _node_names(case)
    out = []
    for ph in case.get("phases", []):
        for e in ph["edits"]:
            if not sh.apply(e, names):
                return None
        r = ph["root"]
        if r not in sh.par or sh.par[r] is not None:
            return None
        t = sh.to_tree(r)
        inside = set(sh.sub(r))
        if any(run["start"] not in inside for run in ph["runs"]):
            return None
        out.append(t)
    return out


ROSE_BUILDS = ["ctor_children", "ctor_parent", "setter_list_reused", "setter_tuple", "setter_reorder",
               "parent_setter", "rshift", "lshift", "append", "extend_reused",
               "regroup_kids_first", "regroup_kids_last", "regroup_interleaved", "regroup_alternate"]
BIN_BUILDS = ["ctor_lr", "ctor_children", "setter_list_reused", "setter_tuple", "setter_reorder", "lr_setters",
              "parent_setter", "rshift", "lshift", "append", "extend_reused"]
VALUE_EQ = ("EqNode", "EqBase", "EqBinary")     # classes whose instances compare equal by name / key


def _node_names(case):
    """node number -> name.  Distinct names, except for the value-equality classes, where names repeat
    across the tree (never among the children of one node: Node forbids that)."""
    out = {}
    rep_ = case["cls"] in VALUE_EQ

    def go(t, kids):
        used = set()
        for k in kids:
            if k is None:
                continue
            nm = "k%d" % (k[0] % 3) if rep_ else "n%d" % k[0]
            if nm in used:
                nm = "n%d" % k[0]
            used.add(nm)
            out[k[0]] = nm
            go(k, k[1] if case["kind"] == "rose" else k[1:3])
    t = case["tree"]
    out[t[0]] = ("k%d" % (t[0] % 3)) if rep_ else "n%d" % t[0]
    go(t, t[1] if case["kind"] == "rose" else t[1:3])
    return out


def _build(case, classes, reg):
    """Builds the tree with the construction style case['build']; user attributes (case['attrs'], possibly
    named like built-in properties) are given as constructor kwargs or through set_attrs."""
    cls = classes[case["cls"]]
    kind = case["kind"]
    style = case.get("build", "ctor_children" if kind == "rose" else "ctor_lr")
    attrs = case.get("attrs") or {}
    by_kw = case.get("astyle", "kw") == "kw"
    names = _node_names(case)
    nameless = case["cls"] in ("BaseNode", "SubBase", "EqBase")

    def kw(i):
        d = dict(attrs.get(str(i), {})) if by_kw else {}
        if case["cls"] == "EqBase":
            d["key"] = names[i]            # repeats across the tree, never among the children of one node
        return d

    def new(i, **links):
        n = cls(**links, **kw(i)) if nameless else cls(names[i], **links, **kw(i))
        reg[i] = n
        return n

    def kids_of(t):
        return t[1] if kind == "rose" else [t[1], t[2]]

    def link(op, parent, child):
        if op == "parent_setter":
            child.parent = parent
        elif op == "rshift":
            parent >> child
        elif op == "lshift":
            child << parent
        elif op == "append":
            parent.append(child)

    if style == "ctor_children":
        def go(t):
            ks = [None if k is None else go(k) for k in kids_of(t)]
            return new(t[0], children=ks)
        go(case["tree"])
    elif style == "ctor_lr":
        def go(t):
            l, r = [None if k is None else go(k) for k in kids_of(t)]
            return new(t[0], left=l, right=r)
        go(case["tree"])
    elif style == "ctor_parent" or (kind == "bin" and style in ("parent_setter", "rshift", "lshift", "append", "extend_reused")):
        # top-down; a BinaryNode takes the first free slot, so a lone right child needs the right setter
        buf = []

        def go(t, parent):
            if style == "ctor_parent" and parent is not None and not (kind == "bin" and parent[1]):
                n = new(t[0], parent=parent[0])
            else:
                n = new(t[0])
                if parent is not None:
                    if kind == "bin" and parent[1]:
                        parent[0].right = n
                    elif style == "extend_reused":
                        buf.clear()
                        buf.append(n)
                        parent[0].extend(buf)
                    else:
                        link(style, parent[0], n)
            ks = kids_of(t)
            lone_right = kind == "bin" and ks[0] is None and ks[1] is not None
            for k in ks:
                if k is not None:
                    go(k, (n, lone_right))
            return n
        go(case["tree"], None)
    else:
        # all nodes first, links afterwards (bottom-up or top-down alternately by node number parity of the root)
        order = []

        def mk(t):
            new(t[0])
            order.append(t)
            for k in kids_of(t):
                if k is not None:
                    mk(k)
        mk(case["tree"])
        if style.startswith("regroup"):
            # top-down: a node first receives its children AND grandchildren in one flat list, then every child
            # takes its own children away from it with one assignment (several nodes of one donor, in order)
            def flat(t):
                ks = kids_of(t)
                gs = [[g for g in kids_of(k)] for k in ks]
                if style == "regroup_kids_first":
                    seq = ks + [g for l in gs for g in l]
                elif style == "regroup_kids_last":
                    seq = [g for l in gs for g in l] + ks
                elif style == "regroup_interleaved":
                    seq = [x for k, l in zip(ks, gs) for x in [k] + l]
                else:
                    allg = [g for l in gs for g in l]
                    seq = []
                    for a in range(max(len(ks), len(allg))):
                        seq += ([allg[a]] if a < len(allg) else []) + ([ks[a]] if a < len(ks) else [])
                return [reg[x[0]] for x in seq]
            root_t = order[0]
            reg[root_t[0]].children = flat(root_t)
            for t in order[1:]:
                # t's children currently hang under t's parent (the donor)
                reg[t[0]].children = flat(t)
            order = []
        elif case["tree"][0] % 2:
            order.reverse()
        buf = []                       # ONE caller-owned list object, re-used for every assignment
        for t in order:
            n = reg[t[0]]
            ks = [None if k is None else reg[k[0]] for k in kids_of(t)]
            if kind == "rose" and not ks and style not in ("setter_list_reused", "setter_tuple"):
                continue
            if style == "setter_list_reused":
                buf.clear()
                buf.extend(ks)
                n.children = buf
            elif style == "setter_tuple":
                n.children = tuple(ks)
            elif style == "setter_reorder":
                buf.clear()
                buf.extend(reversed(ks))
                n.children = buf
                buf.reverse()
                n.children = buf
            elif style == "lr_setters":
                n.left = ks[0]
                n.right = ks[1]
            elif style == "extend_reused":
                buf.clear()
                buf.extend(ks)
                n.extend(buf)
            else:
                for k in ks:
                    link(style, n, k)
        buf.clear()                    # the caller goes on using its list
        buf.extend([None, None])
    if not by_kw:
        for i, n in reg.items():
            if str(i) in attrs:
                n.set_attrs(dict(attrs[str(i)]))


def _intended(case):
    out = {}

    def go(t, parent):
        ks = t[1] if case["kind"] == "rose" else [t[1], t[2]]
        out[t[0]] = (parent, [None if k is None else k[0] for k in ks])
        for k in ks:
            if k is not None:
                go(k, t[0])
    go(case["tree"], None)
    return out


_SUBCLASSES = {}


def _classes():
    """BaseNode / Node / BinaryNode and user-style subclasses of them (extra attribute, extra method,
    overridden __repr__; nothing of the tree API is overridden)."""
    if _SUBCLASSES:
        return _SUBCLASSES
    from bigtree.node.basenode import BaseNode
    from bigtree.node.binarynode import BinaryNode
    from bigtree.node.node import Node

    class SubNode(Node):
        colour = "red"

        def __repr__(self):
            return "SubNode<%s>" % self.node_name

        def label(self):
            return self.node_name.upper()

    class SubBase(BaseNode):
        weight = 3

    class SubBinary(BinaryNode):
        colour = "blue"

        def __repr__(self):
            return "SubBinary<%s>" % self.node_name

    # value semantics: distinct nodes compare (and hash) equal when their names / keys are equal
    class EqNode(Node):
        def __eq__(self, other):
            return isinstance(other, EqNode) and other.node_name == self.node_name

        def __hash__(self):
            return hash(self.node_name)

    class EqBase(BaseNode):
        def __eq__(self, other):
            return isinstance(other, EqBase) and other.get_attr("key") == self.get_attr("key")

        def __hash__(self):
            return hash(self.get_attr("key"))

    class EqBinary(BinaryNode):
        def __eq__(self, other):
            return isinstance(other, EqBinary) and other.node_name == self.node_name

        def __hash__(self):
            return hash(self.node_name)

    _SUBCLASSES.update(BaseNode=BaseNode, Node=Node, BinaryNode=BinaryNode,
                       SubNode=SubNode, SubBase=SubBase, SubBinary=SubBinary,
                       EqNode=EqNode, EqBase=EqBase, EqBinary=EqBinary)
    return _SUBCLASSES


OBS_KEYS = ("pre", "post", "lo", "zz", "log", "zzg", "in")
GROUPED = ("log", "zzg")


def run_impl(prop, case):
    from bigtree.utils import iterators as it

    classes = _classes()
    reg = {}
    _build(case, classes, reg)
    num = {id(n): i for i, n in reg.items()}

    def nm(x):
        return num.get(id(x), FOREIGN)

    def structure():
        # links of every node as the public getters show them (None slots kept)
        return {i: (None if n.parent is None else nm(n.parent),
                    [None if c is None else nm(c) for c in n.children]) for i, n in reg.items()}

    built_ok = structure() == _intended(case)

    def pred(tab, ptype):
        """condition as a function of node identity; `ptype` = what it returns:
        bool | int (1/0) | obj (non-empty list / empty list) | none (a str / None)"""
        if tab is None:
            return None
        s = frozenset(tab)
        if ptype == "attr":
            # the usual way conditions are written: the decision is a user attribute of the node
            key = "keep_%d" % len(attr_keys)
            attr_keys.append(key)
            for i, n in reg.items():
                n.set_attrs({key: i in s})
            return (lambda node: node.get_attr(key)) if len(attr_keys) % 2 else (lambda node: getattr(node, key))
        if ptype == "int":
            return lambda node: 1 if num.get(id(node), FOREIGN) in s else 0
        if ptype == "obj":
            return lambda node: [node] if num.get(id(node), FOREIGN) in s else []
        if ptype == "none":
            return lambda node: "yes" if num.get(id(node), FOREIGN) in s else None
        return lambda node: num.get(id(node), FOREIGN) in s

    attr_keys = []

    def makers(run):
        """zero-argument constructors of the seven generators for this run, in OBS_KEYS order"""
        start = reg[run["start"]]
        ptype = run.get("pt", "bool")
        f, st, m = pred(run["f"], ptype), pred(run["s"], ptype), run["m"]
        call = run.get("call", "kw")
        if call == "none" and m == 0:
            m = None                                   # max_depth=None: no limit
        fns = [it.preorder_iter, it.postorder_iter, it.levelorder_iter, it.zigzag_iter,
               it.levelordergroup_iter, it.zigzaggroup_iter]
        out = []
        for fn in fns:
            if call == "pos":
                out.append(lambda fn=fn: fn(start, f, st, m))
            elif call == "omit":
                kw = {}
                if f is not None:
                    kw["filter_condition"] = f
                if st is not None:
                    kw["stop_condition"] = st
                if m:
                    kw["max_depth"] = m
                out.append(lambda fn=fn, kw=kw: fn(start, **kw))
            else:
                out.append(lambda fn=fn: fn(start, filter_condition=f, stop_condition=st, max_depth=m))
        if case["kind"] == "bin":
            if call == "pos":
                out.append(lambda: it.inorder_iter(start, f, m))
            elif call == "omit":
                kw = {}
                if f is not None:
                    kw["filter_condition"] = f
                if m:
                    kw["max_depth"] = m
                out.append(lambda kw=kw: it.inorder_iter(start, **kw))
            else:
                out.append(lambda: it.inorder_iter(start, filter_condition=f, max_depth=m))
        else:
            out.append(lambda: iter(()))
        return out

    def read(key, items):
        return [[nm(x) for x in g] for g in items] if key in GROUPED else [nm(x) for x in items]

    def eager(mk):
        # every node / group is read as soon as it is yielded
        o = {}
        for key, m_ in zip(OBS_KEYS, mk):
            o[key] = [[nm(x) for x in g] for g in m_()] if key in GROUPED else [nm(x) for x in m_()]
        return o

    def late(mk):
        # the caller collects the whole iterator first and looks at the nodes / groups afterwards
        o = {}
        for key, m_ in zip(OBS_KEYS, mk):
            items = list(m_())
            o[key] = read(key, items)
        return o

    def interleaved(mk):
        # all generators (two of every iterator) are created first and then advanced in turn, one step
        # each; everything is read at the end
        gens = [m_() for m_ in mk] + [m_() for m_ in mk]
        got = [[] for _ in gens]
        live = list(range(len(gens)))
        while live:
            for k in list(live):
                try:
                    got[k].append(next(gens[k]))
                except StopIteration:
                    live.remove(k)
        n = len(mk)
        a = {key: read(key, got[k]) for k, key in enumerate(OBS_KEYS)}
        b = {key: read(key, got[n + k]) for k, key in enumerate(OBS_KEYS)}
        return a, b

    def do_runs(runs, first_flags):
        before = structure()
        res = []
        for run in runs:
            mk = makers(run)
            o = eager(mk)
            alts = []
            a, b = interleaved(mk)
            for mode, cur in (("late", late(mk)), ("interleaved", a), ("interleaved-twin", b), ("again", eager(mk))):
                if cur != {k: o[k] for k in OBS_KEYS} and all(cur != {k: x[k] for k in OBS_KEYS} for x in alts):
                    alts.append(dict(cur, mode=mode))
            o["alts"] = alts
            res.append(o)
        after = structure()
        if res:
            if after != before:
                res[0]["mutated"] = sorted(i for i in before if before[i] != after[i])
            res[0].update(first_flags)
        return res

    def do_edit(e, sh):
        k = e[0]
        if k == "read":
            v = getattr(reg[e[2]], e[1])
            if e[1] == "depth":
                return v == sh.depth(e[2])
            if e[1] == "root":
                return v is reg[sh.root(e[2])]
            if e[1] == "max_depth" and case["cls"] not in VALUE_EQ:
                # (value-equality classes: the unchanged `descendants` drops nodes that are == self, so max_depth
                #  can be too small there - reported to the coordinator, not checked here)
                return v == sh.height(sh.root(e[2]))
            if not isinstance(v, (bool, int, str)) and v is not None:
                list(v)
            return True
        if k == "move":
            how = e[3] if len(e) > 3 else "parent"
            x, p_ = reg[e[1]], reg[e[2]]
            if how == "rshift":
                p_ >> x
            elif how == "lshift":
                x << p_
            elif how == "append":
                p_.append(x)
            else:
                x.parent = p_
        elif k == "detach":
            reg[e[1]].parent = None
        elif k == "delchildren":
            del reg[e[1]].children
        elif k == "sort":
            reg[e[1]].sort(key=lambda n: num[id(n)], reverse=bool(e[2]))
        elif k == "setchildren":
            new = [None if c is None else reg[c] for c in e[2]]
            if len(e) > 3 and e[3] == "left":
                reg[e[1]].left = new[0]
            elif len(e) > 3 and e[3] == "right":
                reg[e[1]].right = new[1]
            else:
                reg[e[1]].children = tuple(new) if (len(e) > 3 and e[3] == "tuple") else new
        return True

    out = [do_runs(case["runs"], {} if built_ok else {"misbuilt": True})]
    sh = Shadow(case["kind"], case["tree"])
    for ph in case.get("phases", []):
        flags = {}
        for e in ph["edits"]:
            ok = do_edit(e, sh)
            sh.apply(e)
            if not ok:
                flags["misread"] = e      # depth / root / max_depth read between the edits was wrong
        want = Shadow(case["kind"], ph["tree"])
        got = structure()
        if any(got[i] != (want.par[i], want.kids[i]) for i in want.par):
            flags["misbuilt"] = True    # the edits did not produce the intended links
        out.append(do_runs(ph["runs"], flags))
    return out


# ---------------------------------------------------------------------------------------------
# Coq literals


def _ctree(t):
    return "N %d %s" % (t[0], clist(_ctree(k) for k in t[1]))


def _cbtree(b):
    def slot(k):
        return "None" if k is None else "(Some (%s))" % _cbtree(k)
    return "BN %d %s %s" % (b[0], slot(b[1]), slot(b[2]))


def _cl(xs):
    return clist(str(int(x)) for x in xs)


def _cll(xss):
    return clist(_cl(xs) for xs in xss)


def _emit_one(kind, tree, runs_, obs, poison):
    pos = {i: p for i, _, p, _ in (rose_nodes(tree) if kind == "rose" else bin_nodes(tree))}
    runs = []
    assert len(obs) == len(runs_)
    for run, o0 in zip(runs_, obs):
        # every observation mode (eager; after list(iterator); interleaved generators; second pass) must
        # equal the model and satisfy the property: a mode that differs from the eager one is emitted as
        # an additional run with the same arguments
        for o in [o0] + list(o0.get("alts", [])):
            # an input tree whose links are not the intended ones / changed during the iterations / gave a wrong
            # depth or root when read is reported through a foreign number
            pre = list(o["pre"]) + ([FOREIGN] if poison else [])
            io = "(IO %s %s %s %s %s %s)" % (_cl(pre), _cl(o["post"]), _cl(o["lo"]), _cl(o["zz"]),
                                             _cll(o["log"]), _cll(o["zzg"]))
            runs.append("IR %s %s %s %d %s %s" % (_cl(pos[run["start"]]), copt(run["f"], _cl), copt(run["s"], _cl),
                                                   run["m"], io, _cl(o["in"])))
    if kind == "rose":
        return "CRose (%s) %s" % (_ctree(tree), clist(runs))
    return "CBin (%s) %s" % (_cbtree(tree), clist(runs))


def _flagged(ph_obs):
    return any(o.get("mutated") or o.get("misbuilt") or o.get("misread") for o in ph_obs)


def emit(prop, case, obs):
    phases = [(case["tree"], case["runs"])] + [(ph["tree"], ph["runs"]) for ph in case.get("phases", [])]
    assert len(obs) == len(phases)
    return clist(_emit_one(case["kind"], t, r, o, _flagged(o)) for (t, r), o in zip(phases, obs) if r)


# ---------------------------------------------------------------------------------------------
# generation: shapes


def _number(shape, rng=None):
    """shape = nested lists of children; returns [id, [..]] with pre-order ids (or shuffled ids)."""
    cnt = [0]

    def count(s):
        return 1 + sum(count(k) for k in s)
    n = count(shape)
    ids = list(range(n))
    if rng is not None and rng.random() < 0.3:
        rng.shuffle(ids)

    def go(s):
        i = ids[cnt[0]]
        cnt[0] += 1
        return [i, [go(k) for k in s]]
    return go(shape)


def _number_bin(shape, rng=None):
    cnt = [0]

    def count(s):
        return 0 if s is None else 1 + count(s[0]) + count(s[1])
    ids = list(range(count(shape)))
    if rng is not None and rng.random() < 0.3:
        rng.shuffle(ids)

    def go(s):
        if s is None:
            return None
        i = ids[cnt[0]]
        cnt[0] += 1
        l = go(s[0])
        r = go(s[1])
        return [i, l, r]
    return go(shape)


def shape_from_parents(par):
    kids = [[] for _ in par]
    for c, p in enumerate(par):
        if p is not None:
            kids[p].append(c)

    def go(x):
        return [go(c) for c in kids[x]]
    return go(0)


def gen_shape(rng, stratum):
    if stratum == "path":
        n = rng.randint(2, 8)
        par = [None] + list(range(n - 1))
    elif stratum == "star":
        n = rng.randint(3, 8)
        par = [None] + [0] * (n - 1)
    elif stratum == "verydeep":
        # a spine of depth 20..40 with a few forks (fan-out 2..3) at random heights
        spine = rng.randint(20, 40)
        par = [None] + list(range(spine - 1))
        for _ in range(rng.randint(2, 6)):
            p = rng.randrange(len(par))
            for _ in range(rng.randint(1, 2)):
                par.append(p)
            if rng.random() < 0.5:
                par.append(len(par) - 1)
    elif stratum == "wide":
        n = rng.randint(4, 12)
        par = [None]
        deg = [0]
        for c in range(1, n):
            cands = [p for p in range(c) if deg[p] < 6]
            # prefer parents that already have children: fan-out >= 3 is the point of this stratum
            w = [1 + 3 * deg[p] for p in cands]
            p = rng.choices(cands, w)[0]
            par.append(p)
            deg[p] += 1
            deg.append(0)
    elif stratum == "deep":
        n = rng.randint(5, 12)
        par = [None]
        dep = [1]
        for c in range(1, n):
            cands = [p for p in range(c) if dep[p] < 8]
            w = [dep[p] ** 2 for p in cands]
            p = rng.choices(cands, w)[0]
            par.append(p)
            dep.append(dep[p] + 1)
    else:  # mixed
        n = rng.randint(3, 12)
        par = [None] + [rng.randrange(c) for c in range(1, n)]
    return shape_from_parents(par)


def gen_bin_shape(rng, n, deep=False):
    """random binary tree shape with n nodes: (left, right) tuples / None"""
    if n == 0:
        return None
    if deep and n > 1 and rng.random() < 0.6:
        k = 0 if rng.random() < 0.5 else n - 1
    else:
        k = rng.randint(0, n - 1)
    return (gen_bin_shape(rng, k, deep), gen_bin_shape(rng, n - 1 - k, deep))


def all_shapes(n):
    """all ordered trees with n nodes"""
    def forests(k):     # ordered forests with k nodes
        if k == 0:
            yield []
            return
        for first in range(1, k + 1):
            for t in trees(first):
                for rest in forests(k - first):
                    yield [t] + rest

    def trees(k):
        for f in forests(k - 1):
            yield f
    return list(trees(n))


def all_bin_shapes(n):
    if n == 0:
        return [None]
    out = []
    for k in range(n):
        for l in all_bin_shapes(k):
            for r in all_bin_shapes(n - 1 - k):
                out.append((l, r))
    return out


# ---------------------------------------------------------------------------------------------
# generation: runs


def _levels(nodes, start_id):
    """ids of the subtree of start grouped by relative level"""
    pos = {i: p for i, _, p, _ in nodes}
    sp = pos[start_id]
    lv = {}
    for i, d, p, _ in nodes:
        if p[:len(sp)] == sp:
            lv.setdefault(len(p) - len(sp), []).append(i)
    return [lv[k] for k in sorted(lv)]


def gen_run(rng, nodes):
    ids = [i for i, _, _, _ in nodes]
    depth = {i: d for i, d, _, _ in nodes}
    maxd = max(depth.values())
    start = ids[0] if rng.random() < 0.55 else rng.choice(ids)
    lv = _levels(nodes, start)
    sub = [i for l in lv for i in l]
    r = rng.random()
    if r < 0.35:
        f = None
    elif r < 0.9:
        p = rng.choice([0.3, 0.5, 0.8])
        f = sorted(i for i in ids if rng.random() < p)
    else:
        f = []
    r = rng.random()
    if r < 0.35:
        s = None
    elif r < 0.65:
        s = sorted(rng.sample(sub, min(len(sub), rng.randint(1, 2))))
    elif r < 0.85:
        # every node of one level (trailing empty group), sometimes one survivor
        k = rng.randrange(len(lv))
        s = list(lv[k])
        if len(s) > 1 and rng.random() < 0.4:
            s.remove(rng.choice(s))
        s = sorted(s)
    elif r < 0.93:
        p = rng.choice([0.2, 0.4])
        s = sorted(i for i in ids if rng.random() < p)
    else:
        s = []
    r = rng.random()
    if r < 0.4:
        m = 0
    elif r < 0.95:
        m = rng.randint(max(1, depth[start] - 1), maxd + 1)
    else:
        m = maxd + rng.choice([2, 10, 1000])
    # what the conditions return (truthy / falsy non-bools) and how the arguments are passed
    pt = rng.choices(["bool", "int", "obj", "none", "attr"], [5, 2, 2, 2, 3])[0]
    call = rng.choices(["kw", "pos", "omit", "none"], [4, 3, 2, 1])[0]
    return {"start": start, "f": f, "s": s, "m": m, "pt": pt, "call": call}


def systematic_runs(nodes):
    """deterministic run set used by the small-scope exhaustive pass"""
    ids = [i for i, _, _, _ in nodes]
    depth = {i: d for i, d, _, _ in nodes}
    root = ids[0]
    runs = []
    for st in ids:
        runs.append({"start": st, "f": None, "s": None, "m": 0})
        for m in sorted({depth[st] - 1, depth[st], depth[st] + 1, depth[st] + 2}):
            if m >= 1:
                runs.append({"start": st, "f": None, "s": None, "m": m})
    for x in ids:
        runs.append({"start": root, "f": None, "s": [x], "m": 0})
    for st in ids:
        # the start node itself stopped / filtered out / the only node kept
        runs.append({"start": st, "f": None, "s": [st], "m": 0, "call": "pos"})
        runs.append({"start": st, "f": [i for i in ids if i != st], "s": None, "m": 0, "pt": "obj"})
        runs.append({"start": st, "f": [st], "s": [], "m": 0, "pt": "none", "call": "omit"})
    for l in _levels(nodes, root):
        runs.append({"start": root, "f": None, "s": sorted(l), "m": 0})
        runs.append({"start": root, "f": sorted(l), "s": None, "m": 0})
    runs.append({"start": root, "f": [i for i in ids if i % 2 == 0], "s": None, "m": 0})
    runs.append({"start": root, "f": [i for i in ids if i % 2 == 1], "s": [ids[-1]], "m": 0})
    runs.append({"start": root, "f": [], "s": [], "m": 0})
    return runs


# user attribute names: built-in (read-only) property names, affixes of them, and harmless ones
ATTR_NAMES = ["depth", "depth", "depth", "max_depth", "is_leaf", "is_root", "root", "leaves", "siblings", "node_name",
              "path_name", "diameter", "descendants", "ancestors", "val", "n", "names", "x", "y", "shift", "depth_",
              "children_", "tag"]
ATTR_VALUES = [0, 1, 2, 3, 5, 40, -1, None, "", "a", [], True, False]


def gen_attrs(rng, nodes):
    """user attributes for some / all nodes; `depth` (int values around real depths) is the favourite"""
    names = rng.sample(sorted(set(ATTR_NAMES)), rng.randint(0, 2))
    if rng.random() < 0.7:
        names.append("depth")
    out = {}
    for i, _, _, _ in nodes:
        if rng.random() < 0.8:
            out[str(i)] = {a: (rng.choice([0, 1, 2, 3, 4, 40]) if a in ("depth", "max_depth") and rng.random() < 0.8
                               else rng.choice(ATTR_VALUES)) for a in set(names)}
    return out


def builds_for(kind, cls):
    # value-equality classes: the unchanged setters locate nodes with list.index / list.remove (by ==), so a child list
    # must never hold two equal nodes, which the regroup styles (children and grandchildren in one list) would do
    if kind == "bin":
        return BIN_BUILDS
    return [b for b in ROSE_BUILDS if not (cls in VALUE_EQ and b.startswith("regroup"))]


READS = ["depth", "depth", "max_depth", "root", "node_path", "is_leaf", "siblings", "ancestors", "descendants"]


def gen_edit(rng, sh, kind):
    """one structural edit that is legal in the shadow state (None if none found)"""
    ids = sorted(sh.par)
    for _ in range(12):
        r = rng.random()
        if r < 0.45:
            # move an inner node (or any node) up / down / sideways
            inner = [x for x in ids if any(k is not None for k in sh.kids[x])]
            x = rng.choice(inner if inner and rng.random() < 0.75 else ids)
            cands = [p for p in ids if p != x and x not in sh.anc(p) and sh.root(p) == sh.root(ids[0] if ids[0] in sh.par else x)]
            cands = [p for p in ids if p != x and x not in sh.anc(p)]
            if kind == "bin":
                cands = [p for p in cands if None in sh.kids[p] or sh.par[x] == p]
            # prefer a different depth
            diff = [p for p in cands if sh.depth(p) + 1 != sh.depth(x)]
            if not cands:
                continue
            p = rng.choice(diff if diff and rng.random() < 0.8 else cands)
            e = ["move", x, p, rng.choice(["parent", "rshift", "lshift", "append"])]
        elif r < 0.6 and kind == "rose":
            # one assignment that takes several children of ONE donor, in their order (first k / every other / all but
            # the first), possibly keeping the recipient's own children
            donors = [p for p in ids if len(sh.kids[p]) >= 3]
            if not donors:
                continue
            d = rng.choice(donors)
            ks = list(sh.kids[d])
            pick = rng.choice([ks[:2], ks[:-1], ks[0::2], ks[1::2] if len(ks) >= 4 else ks[:2], ks[1:-1] + ks[:1]])
            pick = [c for c in pick if c is not None]
            if len(pick) < 2 and rng.random() < 0.8:
                pick = ks[:2]
            recips = [q for q in ids if q not in pick and not any(c in sh.anc(q) for c in pick)]
            if not recips:
                continue
            q = rng.choice(recips)
            own = [c for c in sh.kids[q] if c not in pick] if rng.random() < 0.5 else []
            e = ["setchildren", q, (own + pick) if rng.random() < 0.5 else (pick + own), rng.choice(["list", "tuple"])]
        elif r < 0.6:
            p = rng.choice(ids)
            side = rng.choice([0, 1])
            cands = [x for x in ids if x != p and x not in sh.anc(p) and x not in sh.kids[p]] + [None]
            x = rng.choice(cands)
            new = list(sh.kids[p])
            new[side] = x
            e = ["setchildren", p, new, rng.choice(["list", "left" if side == 0 else "right"])]
        elif r < 0.75:
            x = rng.choice(ids)
            if sh.par[x] is None:
                continue
            e = ["detach", x]
        elif r < 0.83:
            p = rng.choice(ids)
            if not any(k is not None for k in sh.kids[p]):
                continue
            e = ["delchildren", p]
        elif kind == "rose":
            p = rng.choice([x for x in ids if len(sh.kids[x]) >= 2] or ids)
            e = ["sort", p, rng.random() < 0.5]
        else:
            continue
        return e
    return None


def add_history(rng, case, nphases, nruns):
    """appends phases: groups of 1-3 edits (with reads of depth / root / ... in between), then runs on one of the
    resulting trees (usually the one holding the original root, sometimes a detached / re-rooted part)"""
    import copy
    sh = Shadow(case["kind"], case["tree"])
    names = None if case["cls"] in ("BaseNode", "SubBase") else _node_names(case)
    case["phases"] = []
    for _ in range(nphases):
        edits = []
        for _ in range(rng.randint(1, 3)):
            for _ in range(rng.randint(0, 2)):
                edits.append(["read", rng.choice(READS), rng.choice(sorted(sh.par))])
            trial = None
            for _ in range(6):
                e = gen_edit(rng, sh, case["kind"])
                if e is None:
                    continue
                t2 = copy.deepcopy(sh)
                if t2.apply(e, names):
                    trial = (e, t2)
                    break
            if trial is None:
                break
            edits.append(trial[0])
            sh = trial[1]
        if not any(e[0] != "read" for e in edits):
            break
        if rng.random() < 0.5:
            edits.append(["read", "depth", rng.choice(sorted(sh.par))])
        roots = sorted(x for x in sh.par if sh.par[x] is None)
        main = sh.root(case["tree"][0])
        big = [x for x in roots if len(sh.sub(x)) >= 2]
        root = main if rng.random() < 0.7 or not big else rng.choice(big)
        tree = sh.to_tree(root)
        nodes = rose_nodes(tree) if case["kind"] == "rose" else bin_nodes(tree)
        runs = [gen_run(rng, nodes) for _ in range(nruns)]
        # make sure a depth limit is exercised after the edits
        if all(r_["m"] == 0 for r_ in runs):
            runs[0]["m"] = rng.randint(1, max(d for _, d, _, _ in nodes))
        case["phases"].append({"edits": edits, "root": root, "tree": tree, "runs": runs})
    if not case["phases"]:
        case.pop("phases")
    return case


def _mk(kind, cls, tree, runs, stratum, build=None, attrs=None, astyle="kw"):
    c = {"kind": kind, "cls": cls, "tree": tree, "runs": runs, "stratum": stratum,
         "build": build or ("ctor_children" if kind == "rose" else "ctor_lr")}
    if attrs:
        c["attrs"] = attrs
        c["astyle"] = astyle
    return c


def exhaustive(rng, max_rose, max_bin, extra_random=2, per_case=4):
    for n in range(1, max_rose + 1):
        for k, sh in enumerate(all_shapes(n)):
            tree = _number(sh)
            nodes = rose_nodes(tree)
            runs = systematic_runs(nodes) + [gen_run(rng, nodes) for _ in range(extra_random)]
            for j in range(0, len(runs), per_case):
                q = k + j // per_case
                cls = ["Node", "BaseNode", "SubNode", "SubBase", "EqNode", "EqBase"][q % 6]
                attrs = {str(i): {"depth": (i * 7 + q) % 5, "is_leaf": q % 2} for i, _, _, _ in nodes} if q % 3 == 0 else None
                yield "exhaustive/rose%d" % n, _mk("rose", cls, tree, runs[j:j + per_case], "exhaustive",
                                                   builds_for("rose", cls)[q % len(builds_for("rose", cls))], attrs,
                                                   "kw" if q % 2 else "set_attrs")
    for n in range(1, max_bin + 1):
        for sh in all_bin_shapes(n):
            tree = _number_bin(sh)
            nodes = bin_nodes(tree)
            runs = systematic_runs(nodes) + [gen_run(rng, nodes) for _ in range(extra_random)]
            for j in range(0, len(runs), per_case):
                q = j // per_case + n
                attrs = {str(i): {"depth": (i * 3 + q) % 5, "max_depth": 1} for i, _, _, _ in nodes} if q % 3 == 0 else None
                yield "exhaustive/bin%d" % n, _mk("bin", ["BinaryNode", "SubBinary", "BinaryNode", "EqBinary"][q % 4], tree,
                                                   runs[j:j + per_case], "exhaustive",
                                                   BIN_BUILDS[q % len(BIN_BUILDS)], attrs, "kw" if q % 2 else "set_attrs")


ROSE_STRATA = ["wide", "deep", "mixed", "path", "star", "verydeep"]


def gen_case(rng, nruns=2):
    r = rng.random()
    if r < 0.3:
        deep = rng.random() < 0.4
        n = rng.randint(1, 10)
        tree = _number_bin(gen_bin_shape(rng, n, deep), rng)
        nodes = bin_nodes(tree)
        st = "bin-deep" if deep else "bin"
        cls = rng.choices(["BinaryNode", "SubBinary", "EqBinary"], [6, 2, 2])[0]
        c = _mk("bin", cls, tree, [gen_run(rng, nodes) for _ in range(nruns)], st, rng.choice(BIN_BUILDS),
                gen_attrs(rng, nodes) if rng.random() < 0.5 else None, rng.choice(["kw", "set_attrs"]))
        if len(nodes) >= 3 and rng.random() < 0.35:
            add_history(rng, c, rng.randint(1, 2), nruns)
        return c
    stratum = rng.choices(ROSE_STRATA, [8, 8, 8, 2, 2, 1])[0]
    tree = _number(gen_shape(rng, stratum), rng)
    nodes = rose_nodes(tree)
    cls = rng.choice(["Node", "Node", "BaseNode", "SubNode", "SubBase", "EqNode", "EqBase"])
    c = _mk("rose", cls, tree, [gen_run(rng, nodes) for _ in range(nruns)], stratum, rng.choice(builds_for("rose", cls)),
            gen_attrs(rng, nodes) if rng.random() < 0.5 else None, rng.choice(["kw", "set_attrs"]))
    if len(nodes) >= 3 and stratum != "verydeep" and rng.random() < 0.4:
        add_history(rng, c, rng.randint(1, 2), nruns)
        # the first traversal must look at depths, otherwise nothing could have been remembered
        if "phases" in c and all(r_["m"] == 0 for r_ in c["runs"]):
            c["runs"][0]["m"] = rng.randint(1, max(d for _, d, _, _ in nodes))
    return c


def corpus(prop):
    out = []
    # trailing empty group: every node of the last level reached is stopped
    t = [0, [[1, [[3, []]]], [2, []]]]
    out.append(("trailing-empty-group", _mk("rose", "Node", t, [
        {"start": 0, "f": None, "s": [1, 2], "m": 0},
        {"start": 0, "f": None, "s": [0], "m": 0},
        {"start": 1, "f": None, "s": None, "m": 1},
        {"start": 0, "f": None, "s": [3], "m": 2}], "corpus")))
    # zigzag below depth 4, fan-out 3, stop below depth 3
    t = [0, [[1, [[2, [[3, [[4, [[5, []], [6, []], [7, []]]], [8, [[9, []], [10, []]]]]]]]]]]]
    out.append(("deep-zigzag", _mk("rose", "Node", t, [
        {"start": 0, "f": None, "s": None, "m": 0},
        {"start": 0, "f": None, "s": [4], "m": 0},
        {"start": 2, "f": None, "s": None, "m": 5},
        {"start": 2, "f": [5, 7, 9, 10, 3], "s": [8], "m": 6}], "corpus")))
    b = [0, [1, None, [2, [3, None, None], None]], [4, [5, None, [6, None, None]], None]]
    out.append(("binary-slots", _mk("bin", "BinaryNode", b, [
        {"start": 0, "f": None, "s": None, "m": 0},
        {"start": 0, "f": None, "s": [2], "m": 3},
        {"start": 4, "f": [5, 6], "s": None, "m": 3},
        {"start": 1, "f": None, "s": [3], "m": 0}], "corpus")))
    # traverse, edit, traverse again: an inner node moves to another depth after its descendants' depths were read
    t = [0, [[1, [[3, [[6, []]]], [4, []]]], [2, [[5, []]]]]]
    c = _mk("rose", "Node", t, [{"start": 0, "f": None, "s": None, "m": 3}, {"start": 1, "f": None, "s": None, "m": 0}], "corpus")
    c["phases"] = [
        {"edits": [["read", "depth", 6], ["move", 1, 5, "parent"], ["read", "depth", 3]], "root": 0, "tree": None,
         "runs": [{"start": 0, "f": None, "s": None, "m": 4}, {"start": 2, "f": None, "s": None, "m": 5}]},
        {"edits": [["detach", 1], ["read", "depth", 6]], "root": 1, "tree": None,
         "runs": [{"start": 1, "f": None, "s": None, "m": 2}, {"start": 3, "f": None, "s": None, "m": 2}]}]
    out.append(("history-move-depth", _refresh(c)))
    # one children assignment taking several children of one donor, in order / every other one
    t = [0, [[1, [[3, []], [4, []], [5, []], [6, []], [7, []], [8, []]]], [2, []]]]
    c = _mk("rose", "BaseNode", t, [{"start": 0, "f": None, "s": None, "m": 0}], "corpus")
    c["phases"] = [
        {"edits": [["setchildren", 2, [3, 4], "list"]], "root": 0, "tree": None,
         "runs": [{"start": 0, "f": None, "s": None, "m": 0}]},
        {"edits": [["setchildren", 0, [1, 2, 5, 7], "tuple"]], "root": 0, "tree": None,
         "runs": [{"start": 0, "f": None, "s": None, "m": 2}]}]
    out.append(("history-steal-children", _refresh(c)))
    return out


def generate(prop, rng, tier):
    if tier == "quick":
        yield from exhaustive(rng, 4, 3, extra_random=1)
        count = 2000
    elif tier == "thorough":
        yield from exhaustive(rng, 6, 5)
        count = 20000
    else:
        yield from exhaustive(rng, 5, 4)
        count = 4000
    for _ in range(count):
        c = gen_case(rng, nruns=2 if tier != "thorough" else 3)
        yield f"{c['cls']}/{c['stratum']}/{c['build']}" + ("/history" if "phases" in c else ""), c


# ---------------------------------------------------------------------------------------------
# shrinking, evidence


def _remove_leaf(case, leaf):
    def go_r(t):
        return [t[0], [go_r(k) for k in t[1] if not (k[0] == leaf and not k[1])]]

    def go_b(b):
        if b is None:
            return None
        if b[0] == leaf and b[1] is None and b[2] is None:
            return None
        return [b[0], go_b(b[1]), go_b(b[2])]
    return go_r(case["tree"]) if case["kind"] == "rose" else go_b(case["tree"])


def _refresh(c):
    """recompute the phase trees of a modified history case; None if it is no longer a legal history"""
    if not c.get("phases"):
        c = dict(c)
        c.pop("phases", None)
        return c
    trees = phase_trees(c)
    if trees is None:
        return None
    c = dict(c)
    c["phases"] = [dict(ph, tree=t) for ph, t in zip(c["phases"], trees)]
    return c


def _run_lists(case):
    """(setter, runs, root id) for the run list of the build phase and of every later phase"""
    def set0(c, rs):
        c["runs"] = rs
    out = [(set0, case["runs"], case["tree"][0])]
    for k, ph in enumerate(case.get("phases", [])):
        def setk(c, rs, k=k):
            c["phases"] = c["phases"][:k] + [dict(c["phases"][k], runs=rs)] + c["phases"][k + 1:]
        out.append((setk, ph["runs"], ph["root"]))
    return out


def shrink_candidates(prop, case):
    phases = case.get("phases", [])
    if phases:
        c = dict(case)
        c.pop("phases")
        yield c
        yield dict(case, phases=phases[:-1]) if len(phases) > 1 else dict(case, phases=[])
        for k, ph in enumerate(phases):
            if any(e[0] == "read" for e in ph["edits"]):
                c = _refresh(dict(case, phases=phases[:k] + [dict(ph, edits=[e for e in ph["edits"] if e[0] != "read"])]
                                  + phases[k + 1:]))
                if c:
                    yield c
            for j in range(len(ph["edits"])):
                c = _refresh(dict(case, phases=phases[:k] + [dict(ph, edits=ph["edits"][:j] + ph["edits"][j + 1:])]
                                  + phases[k + 1:]))
                if c:
                    yield c
    total_runs = sum(len(rs) for _, rs, _ in _run_lists(case))
    for setter, runs, _ in _run_lists(case):
        if runs and total_runs > len(runs):
            c = dict(case)
            setter(c, [])
            yield c
        if len(runs) > 1:
            for k in range(len(runs)):
                c = dict(case)
                setter(c, [runs[k]])
                yield c
    if case.get("attrs"):
        c = dict(case)
        c.pop("attrs")
        yield c
        for i in list(case["attrs"]):
            c = dict(case)
            c["attrs"] = {k: v for k, v in case["attrs"].items() if k != i}
            yield c
    base_build = "ctor_children" if case["kind"] == "rose" else "ctor_lr"
    if case.get("build", base_build) != base_build:
        yield dict(case, build=base_build)
    base_cls = "Node" if case["kind"] == "rose" else "BinaryNode"
    if case["cls"] != base_cls and case["cls"] not in ("BaseNode", "SubBase", "EqBase"):
        c = _refresh(dict(case, cls=base_cls))
        if c:
            yield c
    nodes = nodes_of(case)
    used = {r["start"] for _, rs, _ in _run_lists(case) for r in rs}
    for ph in phases:
        used.add(ph["root"])
        for e in ph["edits"]:
            used.update(x for x in e[1:3] if isinstance(x, int) and not isinstance(x, bool))
            if e[0] == "setchildren":
                used.update(x for x in e[2] if x is not None)
    root = nodes[0][0]
    for i, _, _, sub in nodes:
        leaf = (not sub[1]) if case["kind"] == "rose" else (sub[1] is None and sub[2] is None)
        if leaf and i != root and i not in used:
            c = _refresh(dict(case, tree=_remove_leaf(case, i)))
            if c:
                yield c
    for setter, runs, root_ in _run_lists(case):
        for k, r in enumerate(runs):
            def with_run(r2):
                c = dict(case)
                setter(c, runs[:k] + [r2] + runs[k + 1:])
                return c
            for key in ("f", "s"):
                if r[key] is not None:
                    yield with_run(dict(r, **{key: None}))
                    for j in range(len(r[key])):
                        yield with_run(dict(r, **{key: r[key][:j] + r[key][j + 1:]}))
            if r["m"]:
                yield with_run(dict(r, m=0))
            if r.get("pt", "bool") != "bool" or r.get("call", "kw") != "kw":
                yield with_run(dict(r, pt="bool", call="kw"))
            if r["start"] != root_:
                yield with_run(dict(r, start=root_))


def size(case):
    base_build = "ctor_children" if case["kind"] == "rose" else "ctor_lr"
    sz = (2 * len(case.get("attrs") or {}) + (2 if case.get("build", base_build) != base_build else 0)
          + (1 if case["cls"] not in ("Node", "BinaryNode", "BaseNode") else 0)) + 3 * len(nodes_of(case))
    for _, runs, root_ in _run_lists(case):
        sz += sum(4 + (0 if r["f"] is None else 1 + len(r["f"])) + (0 if r["s"] is None else 1 + len(r["s"]))
                  + (1 if r["m"] else 0) + (1 if r["start"] != root_ else 0)
                  + (1 if r.get("pt", "bool") != "bool" else 0) + (1 if r.get("call", "kw") != "kw" else 0) for r in runs)
    for ph in case.get("phases", []):
        sz += 3 + sum(1 if e[0] == "read" else 4 + (len(e[2]) if e[0] == "setchildren" else 0) for e in ph["edits"])
    return sz


def nontrivial(prop, case, obs):
    return len(nodes_of(case)) >= 3 and any(len(o["pre"]) >= 2 for ph in obs for o in ph)


def sample(prop, case, obs):
    return {"kind": case["kind"], "class": case["cls"], "build": case.get("build"), "attrs": case.get("attrs"),
            "tree": case["tree"], "runs": case["runs"], "phases": case.get("phases"), "yielded": obs}


def rule(prop):
    return ("HISTORIES (about 40% of the random cases with >= 3 nodes, plus corpus): build, run all iterators, then 1-2 groups of 1-3 "
            "structural edits (move a node up/down/sideways with parent= / >> / << / append, detach, one children assignment "
            "taking several children of ONE donor in order / every other one, left/right/children setters on binary nodes, "
            "del children, sort) interleaved with reads of depth / max_depth / root / node_path / siblings / ... (depth, root, "
            "max_depth checked against the harness' shadow), after each group the links must equal the shadow's and all "
            "iterators run again (a max_depth run guaranteed before and after) on the edited tree, possibly on a detached or "
            "re-rooted part, and are compared with the model of the edited tree; "
            "trees built in 14 (binary: 11) construction styles (incl. 4 'regroup' styles: a node first gets children and "
            "grandchildren in one list, then every child takes its own children from that donor in one assignment; constructor children=/parent=/left=/right=, children setter with ONE "
            "caller-owned list re-used for every node / tuples / reassignment of the reversed list, left/right setters, parent "
            "setter, >>, <<, append, extend; the caller's list is modified afterwards) and required to have the intended links; "
            "nodes optionally carry user attributes named like built-in properties or their affixes (depth, max_depth, is_leaf, "
            "root, node_name, val, n, names, x, y, shift, ...; constructor kwargs or set_attrs); classes BaseNode/Node/BinaryNode, "
            "plain subclasses, and subclasses with value equality (__eq__/__hash__ by name, names repeated across the tree); "
            "conditions may also read a user attribute through get_attr/getattr; "
            "ordered trees (BaseNode/Node and plain subclasses of them; strata wide fan-out<=6 / deep depth<=8 / mixed / path / star, "
            "<=12 nodes, plus 'verydeep' spines of depth 20-40 with forks) and binary trees with empty slots in every position "
            "(BinaryNode and a subclass, <=10 nodes) x start node (root or inner, also a start node that is itself stopped, "
            "filtered out or deeper than max_depth) x filter/stop tables (absent, random, whole level stopped, empty) x what the "
            "conditions return (bool, 1/0, non-empty/empty list, str/None) x max_depth (0, None, around the start depth .. tree "
            "depth+1, far beyond) x how the arguments are passed (keywords, positionally, omitted); all 7 iterators per run (6 on "
            "ordered trees), each observed five times: items read as they are yielded; read only after list(iterator); two "
            "generators of every iterator created up front and advanced in turn (both copies); a second eager pass; afterwards "
            "the parent/children links of every node must be what they were; "
            "plus every ordered tree with <=4 (thorough: <=6) nodes and every binary tree with <=3 (thorough: <=5) nodes under a "
            "systematic run set; non-trivial = tree has >=3 nodes and some run yields >=2 nodes; distinct by canonical JSON hash")


def explain(prop, case, obs, flags):
    from ._base import explain as base
    msg = base(prop, case, obs, flags)
    if isinstance(obs, list):
        for k, ph in enumerate(obs):
            if not isinstance(ph, list):
                continue
            where = "as built" if k == 0 else "after edit group %d" % k
            for o in ph:
                if not isinstance(o, dict):
                    continue
                if o.get("misbuilt"):
                    msg += ("; %s the tree does not have the intended links (construction style '%s'; a node-setter problem "
                            "that the traversals expose)" % (where, case.get("build")))
                if o.get("misread"):
                    msg += "; %s: reading %s gave a wrong value" % (where, o["misread"])
                if o.get("mutated"):
                    msg += "; %s: the links of the tree changed while it was iterated (nodes %s)" % (where, o["mutated"])
                for a in o.get("alts") or []:
                    keys = sorted(key for key in OBS_KEYS if a[key] != o[key])
                    msg += ("; %s: observation mode '%s' differs from reading each item as it is yielded, for: %s"
                            % (where, a["mode"], ", ".join(keys)))
    return msg


def trusted_base(prop):
    return COMMON_TB + ["filter/stop conditions are exercised as membership tests on node identity (finite tables); "
                        "conditions with side effects or that inspect the tree while it is iterated are outside the model"]


def partial_clauses(prop):
    # deliberately accepted blind spots of the correspondence (the theorems are about the model)
    return [
        "not observed: how often / in which order / on which nodes the conditions are evaluated (conditions with side effects), "
        "and what happens when a condition raises (the exception propagates out of the generator in the unchanged code)",
        "not observed: laziness - a tree or condition modified between creating a generator and consuming it (the property "
        "makes no claim; the generators read the links when they are advanced)",
        "not observed: the container type of a group (tuple) and whether two groups are distinct objects; only their contents "
        "after full materialisation",
        "restricted: subclasses with value equality (__eq__/__hash__ by name) are only built / edited so that one child list "
        "never holds two equal nodes, and max_depth reads are not checked for them: the unchanged setters use list.index / "
        "list.remove (by ==) and `descendants` filters with `!= self` (witnesses reported to the coordinator)",
        "outside the model: negative or non-integer max_depth, DAGNode arguments (preorder_iter accepts them), node subclasses "
        "whose instances can be falsy (__bool__/__len__: all seven iterators test `if tree` / `if _child` to skip empty binary "
        "slots and therefore silently drop falsy nodes - witness reported to the coordinator), user attributes that shadow "
        "METHODS (get_attr=..., which preorder_iter calls), trees deeper than the interpreter's recursion "
        "limit (unchanged code: RecursionError from about depth 1000, about depth 500 with max_depth set, since node.depth is "
        "recursive as well); generated depth <= 40",
    ]


def assumptions(prop):
    return ["filter_condition / stop_condition are pure total boolean functions of the node (None = absent)",
            "max_depth is a natural number (0 = no limit); negative or non-integer limits are outside the model",
            "nodes are always truthy (no subclass defines __bool__/__len__), as for BaseNode/Node/BinaryNode"]
