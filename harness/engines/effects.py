"""Engine `effects` (C07): operations that return a result never alter or alias the tree they read.

For ~40 read-only / copying API calls on random Node / BinaryNode trees (with scalar and mutable
attribute values) the runner records
  (a) the full signature of the input before and after the call (for every node: parent, children
      in order, name, public attributes, the name-mangled private link fields), plus the walk of the
      structure from the original root,
  (b) the identity sets (node objects, children-list objects, mutable attribute-value objects) of
      the input and of whatever was returned,
  (c) the returned tree,
  (d) the input again after a batch of mutations of the result, and the result before/after a batch
      of mutations of the input.
Corr/EffectsCorr.v evaluates the PC07 predicates on these observations (F_PROPFAIL) and compares
them with what the heap-level effect-skeleton model (Heap/Effects.v) computes on the same input
(F_DISAGREE).
"""
import contextlib
import io
import json
import os

from ..core import cbool, clist, cnat, copt, cpair, cstr
from ._base import *  # noqa
from ._base import exn_code, COMMON_TB

CASES_PER_FILE = 110
SERVES = ["C07"]
COQ_TARGETS = ["theories/Corr/EffectsCorr.vo"]


def coq_header(prop):
    return "From BT Require Import Base.Prelude Heap.Forest Heap.Effects Spec.PC07 Corr.EffectsCorr."


def coq_case_type(prop):
    return "ecase"


def coq_check(prop):
    return "check_C07"


# ---------------------------------------------------------------------------------------------
# function table.  kind: what the call hands back
#   reader : nothing that can alias (text / None)                    -> FReader
#   nodes  : nodes of the input tree (iterators, search)             -> FNodes
#   data   : a data structure built from a copy (exporters)          -> FExport
#   tree   : a tree (copy / clone / subtree / pruned / diff / the destination tree of copy_*_from_tree_to_tree)

RENDER = ["print_tree", "yield_tree", "hprint_tree", "hyield_tree", "show", "hshow",
          "tree_to_newick", "tree_to_mermaid", "tree_to_dot"]
ITERS = ["preorder_iter", "postorder_iter", "levelorder_iter", "levelordergroup_iter",
         "zigzag_iter", "zigzaggroup_iter", "inorder_iter"]
SEARCH = ["findall", "find", "find_name", "find_names", "find_relative_path", "find_relative_paths",
          "find_full_path", "find_path", "find_paths", "find_attr", "find_attrs",
          "find_children", "find_child", "find_child_by_name"]
EXPORT = ["tree_to_dataframe", "tree_to_polars", "tree_to_dict", "tree_to_nested_dict"]
TREEFN = ["node_copy", "deepcopy", "shallow_copy", "clone_tree", "get_subtree", "prune_tree",
          "get_tree_diff_first", "get_tree_diff_second",
          "copy_nodes_from_tree_to_tree", "copy_and_replace_nodes_from_tree_to_tree"]
TREEFN2 = ["copy_nodes"]
DAG_READ = ["dag_iterator", "dag_to_list", "dag_to_dot", "dag_ancestors", "dag_descendants", "dag_siblings", "dag_go_to"]
DAG_EXPORT = ["dag_to_dict", "dag_to_dataframe"]
DAG_COPY = ["dag_copy", "dag_deepcopy", "dag_shallow_copy"]
DAG_FNS = DAG_READ + DAG_EXPORT + DAG_COPY
ALL_FNS = RENDER + ITERS + SEARCH + EXPORT + TREEFN + TREEFN2 + DAG_FNS
MUST_RETURN = {"node_copy", "deepcopy", "shallow_copy", "clone_tree", "get_subtree", "prune_tree",
               "preorder_iter", "postorder_iter", "levelorder_iter", "levelordergroup_iter", "zigzag_iter", "zigzaggroup_iter",
               "inorder_iter", "print_tree", "yield_tree", "hprint_tree", "hyield_tree", "show", "hshow",
               "tree_to_dict", "tree_to_dataframe", "find_names", "find_attrs", "find_children", "find_paths",
               "dag_copy", "dag_deepcopy", "dag_shallow_copy", "dag_iterator", "dag_to_list", "dag_to_dict",
               "dag_ancestors", "dag_descendants", "dag_siblings", "copy_nodes"}
# functions that test nodes for truth (`if node:`, `if not child:`): with a user subclass whose leaves are falsy
# (__len__ = number of children) the unchanged library drops leaves / raises "not found" there (reported; the class
# of falsy-leaf subclasses is generated only for the other functions)
FALSY_UNSAFE = {"clone_tree", "get_subtree", "prune_tree", "print_tree", "yield_tree", "hprint_tree", "hyield_tree", "show",
                "hshow", "tree_to_mermaid", "copy_nodes_from_tree_to_tree", "copy_and_replace_nodes_from_tree_to_tree",
                "copy_nodes"}
# value-semantics subclasses (__eq__/__hash__ by name) are generated only for one-tree functions and only with names
# that are distinct over the whole tree: two trees / copies inside one tree contain distinct nodes that compare equal
EQ_UNSAFE = {"get_tree_diff_first", "get_tree_diff_second", "copy_nodes_from_tree_to_tree",
             "copy_and_replace_nodes_from_tree_to_tree", "copy_nodes"}
NODE_ONLY = {"show", "hshow", "tree_to_newick", "tree_to_mermaid", "tree_to_dot", "find_relative_path",
             "find_relative_paths", "get_tree_diff_first", "get_tree_diff_second",
             "copy_nodes_from_tree_to_tree", "copy_and_replace_nodes_from_tree_to_tree", "copy_nodes"}
BINARY_ONLY = {"inorder_iter"}

SEPS = ["/", "\\", "-", ".", "|"]
NAME_POOLS = {
    "distinct": ["a", "b", "c", "d", "e", "f", "g", "h", "i", "j", "k", "l"],
    "repeated": ["a", "b", "a", "c", "b", "a", "c", "b", "a", "c", "b", "a"],
    "affix": ["a", "xa", "ab", "b", "bc", "a", "abc", "b", "c", "xa", "ca", "bb"],
    "special": ["a b", "(", "+", "a'", "0", "a1", "a", "10", "z", "q", "é", "_x"],
}
ATTR_VALUES = [1, 2, 90, "x", "yy", None, True, [1, 2], [3], ["p", "q"], [[1], 2], {"k": [1]}, {"u": 1}, [], 2.5,
               0, "", False, {},
               {"__t": [[0, 0], [4, 4]]}, {"__t": [{"k": [1]}, 2]}, [{"a": [1]}, {"b": 2}], {"k": [1], "m": [[2]]},
               {"__t": [{"__t": [[7]]}, "s"]}]


# ---------------------------------------------------------------------------------------------
# building the input


def _bt():
    import bigtree
    return bigtree


def _decode(v):
    """cases are JSON: {"__t": [...]} stands for a tuple (immutable container, possibly of mutable objects)"""
    if isinstance(v, dict):
        if set(v) == {"__t"}:
            return tuple(_decode(x) for x in v["__t"])
        return {k: _decode(x) for k, x in v.items()}
    if isinstance(v, list):
        return [_decode(x) for x in v]
    return v


def _fresh_attrs(attrs):
    return _decode(json.loads(json.dumps(attrs)))         # every case gets its own value objects


_SUB = {}
_KEEP = []          # suspended generators of the current case (kept alive while the input is inspected)


def _subclass(kind=True):
    """user subclasses of Node.  True/"plain": extra class attribute, a property, an overriding method;
    "eq": value semantics (__eq__ / __hash__ by name: distinct nodes can compare equal);
    "falsy": __len__ = number of children (a leaf is falsy)"""
    bt = _bt()
    if kind == "eq":
        if "eq" not in _SUB:
            class EqNode(bt.Node):
                def __eq__(self, other):
                    return isinstance(other, bt.Node) and self.node_name == other.node_name

                def __hash__(self):
                    return hash(self.node_name)
            _SUB["eq"] = EqNode
        return _SUB["eq"]
    if kind == "falsy":
        if "falsy" not in _SUB:
            class LenNode(bt.Node):
                def __len__(self):
                    return len(self.children)
            _SUB["falsy"] = LenNode
        return _SUB["falsy"]
    if "c" not in _SUB:

        class SubNode(bt.Node):
            kind = "sub"

            @property
            def label(self):
                return self.node_name.upper()

            def describe(self, *a, **k):
                return super().describe(*a, **k)
        _SUB["c"] = SubNode
    return _SUB["c"]


def _build(cls, spec, sep="/", sub=False):
    """spec: list of [parent index or None, name, attrs dict, slot]; indices are pre-order."""
    bt = _bt()
    nodes = []
    if cls == "DAGNode":
        for pars, name, attrs, slot in spec:
            nodes.append(bt.DAGNode(name, **_fresh_attrs(attrs)))
        for i, (pars, name, attrs, slot) in enumerate(spec):
            if pars:
                nodes[i].parents = [nodes[q] for q in pars]
        return nodes
    for i, (par, name, attrs, slot) in enumerate(spec):
        attrs = _fresh_attrs(attrs)
        if cls == "BinaryNode":
            x = bt.BinaryNode(name, **attrs)
        else:
            N = _subclass(sub) if sub else bt.Node
            x = N(name, sep=sep, **attrs) if par is None else N(name, **attrs)
        nodes.append(x)
    for i, (par, name, attrs, slot) in enumerate(spec):
        if par is None:
            continue
        if cls == "BinaryNode":
            if slot == 0:
                nodes[par].left = nodes[i]
            else:
                nodes[par].right = nodes[i]
        else:
            nodes[i].parent = nodes[par]
    return nodes


# ---------------------------------------------------------------------------------------------
# observation: interning context, signature, result tree


class _Err:
    """placeholder object for 'reading this field raised'"""


_ERR = _Err()


def _canon(v, depth=0):
    if depth > 8:
        return "..."
    if isinstance(v, dict):
        return "{" + ",".join(sorted(_canon(k, depth + 1) + ":" + _canon(x, depth + 1) for k, x in v.items())) + "}"
    if isinstance(v, (list, tuple)):
        return ("[" if isinstance(v, list) else "(") + ",".join(_canon(x, depth + 1) for x in v) + "]"
    if isinstance(v, (set, frozenset)):
        return "s{" + ",".join(sorted(_canon(x, depth + 1) for x in v)) + "}"
    if isinstance(v, float) and v != v:
        return "nan"
    if v is None or isinstance(v, (bool, int, float, str, bytes)):
        return type(v).__name__[0] + repr(v)
    return "<" + type(v).__name__ + ">"


class Ctx:
    def __init__(self, nodes, dag=False, roots=None):
        self.nodes = nodes
        self.dag = dag
        self.roots = roots if roots is not None else nodes[:1]
        self.n = len(nodes)
        self.nid = {id(x): i for i, x in enumerate(nodes)}
        self.keep = list(nodes)
        self.keys = {}
        self.vals = {}
        self.objs = {}

    def node_id(self, x):
        k = id(x)
        if k not in self.nid:
            self.nid[k] = len(self.nid)
            self.keep.append(x)
        return self.nid[k]

    def opt(self, x):
        return None if x is None else self.node_id(x)

    def key(self, k):
        return self.keys.setdefault(k, len(self.keys))

    def val(self, v):
        return self.vals.setdefault(_canon(v), len(self.vals))

    def addr(self, o):
        k = id(o)
        if k not in self.objs:
            self.objs[k] = len(self.objs) + 1
            self.keep.append(o)
        return self.objs[k]

    def top_addr(self, v):
        return self.addr(v) if isinstance(v, (list, dict, set, bytearray)) else 0

    def deep(self, v, acc, depth=0):
        if depth > 8:
            return
        if isinstance(v, (list, dict, set, bytearray)):
            a = self.addr(v)
            if a in acc:
                return
            acc.append(a)
        if isinstance(v, dict):
            for x in v.values():
                self.deep(x, acc, depth + 1)
        elif isinstance(v, (list, tuple, set, frozenset)):
            for x in v:
                self.deep(x, acc, depth + 1)


def _pub(x):
    try:
        d = vars(x)
    except TypeError:
        return {}
    return {k: v for k, v in d.items() if isinstance(k, str) and not k.startswith("_") and k != "name"}


def _name(x):
    try:
        nm = vars(x).get("name", "")
    except TypeError:
        nm = ""
    return nm if isinstance(nm, str) else repr(nm)


def _priv(x):
    """(parent, children list object) read through the name-mangled fields, when they exist"""
    try:
        d = vars(x)
    except TypeError:
        return None, None, False
    pk = [k for k in d if isinstance(k, str) and (k.endswith("__parent") or k.endswith("__parents"))]
    ck = [k for k in d if isinstance(k, str) and k.endswith("__children")]
    if len(pk) == 1 and len(ck) == 1 and isinstance(d[ck[0]], list):
        return d[pk[0]], d[ck[0]], True
    return None, None, False


def _plist(v):
    """a private parent field as a list of parents"""
    if v is None:
        return []
    return list(v) if isinstance(v, (list, tuple)) else [v]


def _priv_lists(x):
    """the list objects held by the private link fields"""
    pp, pc, has = _priv(x)
    return ([pc] + ([pp] if isinstance(pp, list) else [])) if has else []


def _attrs(ctx, x):
    out = []
    for k, v in _pub(x).items():
        out.append([ctx.key(k), ctx.val(v), ctx.top_addr(v)])
    out.sort()
    return out


def _children(x):
    try:
        return list(x.children)
    except Exception:
        return [_ERR]


def _parent(x):
    try:
        return x.parent
    except Exception:
        return _ERR


def _parents(ctx_dag, x):
    """public parents as a list: [parent] / [] for tree nodes, parents for DAG nodes"""
    if ctx_dag:
        try:
            return list(x.parents)
        except Exception:
            return [_ERR]
    p = _parent(x)
    return [] if p is None else [p]


def _entry(ctx, x):
    pars = [ctx.node_id(q) for q in _parents(ctx.dag, x)]
    kids = [ctx.opt(c) for c in _children(x)]
    pp, pc, has = _priv(x)
    pv = None
    kl = 0
    if has:
        ppars = [ctx.node_id(q) for q in _plist(pp)]
        pkids = [ctx.opt(c) for c in pc]
        kl = ctx.addr(pc)
        if ppars != pars or pkids != kids:
            pv = [ppars, pkids]
    pt = 0
    if not ctx.dag:
        try:
            pt = 1 + ctx.val(["path", x.sep, x.path_name])
        except Exception:
            pt = 1 + ctx.val(["path-error"])
    return {"p": pars, "k": kids, "nm": _name(x), "a": _attrs(ctx, x), "pv": pv, "kl": kl, "pt": pt}


def _walk(ctx):
    """pre-order walk from the original root object through the public children getter"""
    out = []
    seen = set()
    cap = 4 * ctx.n + 20

    def rec(x):
        if len(out) >= cap:
            return
        out.append(ctx.node_id(x))
        if id(x) in seen:
            return
        seen.add(id(x))
        for c in _children(x):
            if c is not None:
                rec(c)
    for r in ctx.roots:
        rec(r)
    return out


def snapshot(ctx):
    return {"w": _walk(ctx), "e": [_entry(ctx, x) for x in ctx.nodes]}


def input_objs(ctx):
    lists, vals = [], []
    for x in ctx.nodes:
        for l in _priv_lists(x):
            lists.append(ctx.addr(l))
        for v in _pub(x).values():
            ctx.deep(v, vals)
    return lists, vals


def _rt(ctx, x, seen, budget):
    budget[0] -= 1
    if id(x) in seen or budget[0] < 0 or not hasattr(x, "children"):
        return {"id": ctx.node_id(x), "nm": "<cut>", "a": [], "kl": 0, "k": []}
    seen.add(id(x))
    pp, pc, has = _priv(x)
    kids = []
    for c in _children(x):
        kids.append(None if c is None else _rt(ctx, c, seen, budget))
    return {"id": ctx.node_id(x), "nm": _name(x), "a": _attrs(ctx, x), "kl": ctx.addr(pc) if has else 0, "k": kids}


def _rt_nodes(top):
    out, seen = [], set()

    def rec(x):
        if id(x) in seen or len(out) > 200 or not hasattr(x, "children"):
            return
        seen.add(id(x))
        out.append(x)
        for c in _children(x):
            if c is not None:
                rec(c)
    rec(top)
    return out


def _top_of(r):
    """root of the returned node (walking parents), and the strict ancestors on the way"""
    up, x, seen = [], r, {id(r)}
    while True:
        p = _parent(x)
        if p is None or p is _ERR or id(p) in seen or len(up) > 100:
            return x, up
        up.append(p)
        seen.add(id(p))
        x = p


def result_view(ctx, r, own=False):
    top, up = _top_of(r)
    members = _rt_nodes(top)
    if own or not any(m is r for m in members):
        top = r                       # the returned node is not reachable from its own root: view it by itself
    tree = _rt(ctx, top, set(), [400])
    return {"t": tree, "ret": ctx.node_id(r), "up": [ctx.node_id(u) for u in up]}, top


def result_objs(ctx, top, members=None):
    lists, vals = [], []
    for x in (members if members is not None else _rt_nodes(top)):
        for l in _priv_lists(x):
            lists.append(ctx.addr(l))
        for v in _pub(x).values():
            ctx.deep(v, vals)
    return lists, vals


def dag_members(r, closure=True):
    """the nodes of a returned DAG: everything linked to r through parents and children"""
    out, seen, todo = [], set(), [r]
    while todo and len(out) < 200:
        x = todo.pop(0)
        if id(x) in seen or not hasattr(x, "children"):
            continue
        seen.add(id(x))
        out.append(x)
        if closure:
            todo.extend(q for q in _parents(True, x) if q is not _ERR)
            todo.extend(c for c in _children(x) if c is not None and c is not _ERR)
    return out


def node_at(root, path, sep):
    """the node at a full path, found by walking names (no bigtree search function involved)"""
    parts = [x for x in path.split(sep) if x != ""]
    if not parts or _name(root) != parts[0]:
        return None
    x = root
    for nm in parts[1:]:
        nxt = [c for c in _children(x) if c is not None and c is not _ERR and _name(c) == nm]
        if len(nxt) != 1:
            return None
        x = nxt[0]
    return x


def _path_code(ctx, x):
    try:
        return 1 + ctx.val(["path", x.sep, x.path_name])
    except Exception:
        return 1 + ctx.val(["path-error"])


def res_paths_view(ctx, case, top, ret):
    """(mode, observed, expected) for the result's (sep, path_name) in pre-order; None when the function has no
    definite relation (see EffectsCorr.v ec_res_paths)"""
    fn = case["fn"]
    if case["cls"] == "DAGNode":
        return None
    if fn in ("node_copy", "deepcopy"):
        mode = 0
    elif fn == "prune_tree":
        mode = 1
    elif fn == "get_subtree" and case.get("found", 0) == 0:
        mode = 1 if case["opts"].get("max_depth") else 0
    elif fn in ("get_subtree", "clone_tree"):
        mode = 2
    else:
        return None
    nodes = _rt_nodes(top)
    obs = [_path_code(ctx, x) for x in nodes]
    exp = []
    if mode == 2:
        # the new root is detached / newly built: its separator is its own `_sep` (the constructor default "/",
        # the harness sets a separator only on the input root); path names are built from the result's names
        def rec(x, prefix):
            pn = prefix + "/" + _name(x)
            exp.append(1 + ctx.val(["path", "/", pn]))
            for c in _children(x):
                if c is not None and c is not _ERR:
                    rec(c, pn)
        rec(top, "")
    return [mode, obs, exp]


def pairs_view(ctx, case, aux):
    out = []
    for anchor, path, exact in case.get("pairs", []):
        x = node_at(aux[0], path, case.get("sep", "/")) if aux else None
        t = {"id": ctx.n, "nm": "<missing>", "a": [], "kl": 0, "k": []} if x is None else _rt(ctx, x, set(), [400])
        out.append([anchor, bool(exact), t])
    return out


def dres_view(ctx, members):
    return [[ctx.node_id(x), _entry(ctx, x)] for x in members]


# ---------------------------------------------------------------------------------------------
# mutations applied afterwards (each swallowed on failure: only the *other* side is inspected)


def _mut_deep(v, depth=0):
    if depth > 6:
        return
    if isinstance(v, list):
        for x in list(v):
            _mut_deep(x, depth + 1)
        v.append(991)
    elif isinstance(v, dict):
        for x in list(v.values()):
            _mut_deep(x, depth + 1)
        v["zz"] = 992
    elif isinstance(v, set):
        v.add(993)
    elif isinstance(v, tuple):
        for x in v:
            _mut_deep(x, depth + 1)


def mutate_nodes(side, ints, tag):
    """side: node objects of one side (pre-order).  ints: four small random numbers from the case."""
    m = len(side)
    if not m:
        return
    r0, r1, r2, r3 = ints

    def attempt(f):
        try:
            f()
        except Exception:
            pass

    # in-place change of every mutable attribute value
    for x in side:
        for v in list(_pub(x).values()):
            attempt(lambda v=v: _mut_deep(v))
    # rename, set attribute
    x = side[r0 % m]
    attempt(lambda: setattr(x, "name", "zz" + tag))
    y = side[r1 % m]
    attempt(lambda: setattr(y, "age", 12345))
    attempt(lambda: setattr(y, "fresh_" + tag, [7]))
    # a new child
    z = side[r2 % m]
    attempt(lambda: setattr(type(z)("n" + tag), "parent", z))
    # one random structural change
    kind = r3 % 5
    c = side[(r3 // 5) % m]
    d = side[(r3 // 7 + 1) % m]
    if kind == 0:
        attempt(lambda: setattr(c, "parent", d))
    elif kind == 1:
        attempt(lambda: setattr(c, "parent", None))
    elif kind == 2:
        def f():
            del c.children
        attempt(f)
    elif kind == 3:
        attempt(lambda: c.sort(key=lambda nd: _name(nd) if nd is not None else "", reverse=True))
    else:
        attempt(lambda: setattr(c, "children", list(reversed([k for k in c.children if k is not None]))))
    # and always: the last node of the side is detached, the first node loses its children
    last = side[-1]
    attempt(lambda: setattr(last, "parent", None))
    if r3 % 2:
        def g():
            del side[0].children
        attempt(g)


def mutate_dag(side, ints, tag):
    """DAGNode sides: parents / children assignments instead of the single parent"""
    m = len(side)
    if not m:
        return
    r0, r1, r2, r3 = ints

    def attempt(f):
        try:
            f()
        except Exception:
            pass

    for x in side:
        for v in list(_pub(x).values()):
            attempt(lambda v=v: _mut_deep(v))
    x = side[r0 % m]
    attempt(lambda: setattr(x, "name", "zz" + tag))
    y = side[r1 % m]
    attempt(lambda: setattr(y, "age", 12345))
    attempt(lambda: setattr(y, "fresh_" + tag, [7]))
    z = side[r2 % m]
    attempt(lambda: setattr(type(z)("n" + tag), "parents", [z]))
    attempt(lambda: setattr(type(z)("m" + tag), "children", [z]))
    kind = r3 % 4
    c = side[(r3 // 5) % m]
    d = side[(r3 // 7 + 1) % m]
    if kind == 0:
        attempt(lambda: setattr(c, "parents", [d]))
    elif kind == 1:
        attempt(lambda: setattr(c, "parents", []))
    elif kind == 2:
        def f():
            del c.children
        attempt(f)
    else:
        attempt(lambda: setattr(c, "children", [d]))
    last = side[-1]
    attempt(lambda: setattr(last, "parents", []))
    if r3 % 2:
        def g():
            del side[0].children
        attempt(g)


def mutate_data(v):
    try:
        import pandas as pd
        if isinstance(v, pd.DataFrame):
            for col in v.columns:
                for cell in v[col]:
                    _mut_deep(cell)
            return
    except Exception:
        pass
    try:
        _mut_deep(v)
    except Exception:
        pass


def data_objs(ctx, v):
    acc = []
    try:
        import pandas as pd
        if isinstance(v, pd.DataFrame):
            for col in v.columns:
                for cell in v[col]:
                    ctx.deep(cell, acc)
            return acc
    except Exception:
        pass
    ctx.deep(v, acc)
    return acc


def data_code(ctx, v):
    try:
        import pandas as pd
        if isinstance(v, pd.DataFrame):
            return ctx.val(["df", list(map(str, v.columns)), [[_canon(c) for c in row] for row in v.values.tolist()]])
    except Exception:
        pass
    try:
        import polars as pl
        if isinstance(v, pl.DataFrame):
            return ctx.val(["pl", v.columns, [[_canon(c) for c in row] for row in v.rows()]])
    except Exception:
        pass
    if isinstance(v, (dict, list, tuple, str, int, float, type(None))):
        return ctx.val(v)
    return ctx.val(str(v))


# ---------------------------------------------------------------------------------------------
# the calls


def _cond(spec):
    """a predicate on nodes described by a small JSON spec (so that cases stay plain data)"""
    kind = spec[0]
    if kind == "none":
        return None
    if kind == "name_in":
        names = set(spec[1])
        return lambda nd: nd is not None and _name(nd) in names
    if kind == "name_not_in":
        names = set(spec[1])
        return lambda nd: nd is not None and _name(nd) not in names
    if kind == "has_attr":
        return lambda nd: nd is not None and spec[1] in _pub(nd)
    if kind == "leaf":
        return lambda nd: nd is not None and nd.is_leaf
    if kind == "true":
        return lambda nd: True
    raise ValueError(kind)


def _call(case, nodes, aux):
    """returns (kind, value).  kind in reader|nodes|data|tree|tree_inplace"""
    import copy as _copy
    bt = _bt()
    from bigtree.tree import export, helper, modify, search
    from bigtree.utils import iterators
    fn = case["fn"]
    o = case["opts"]
    t = nodes[case["start"]]

    def flat(v):
        out = []
        for x in v:
            if isinstance(x, (list, tuple)):
                out.extend(flat(x))
            else:
                out.append(x)
        return out

    if fn in ("print_tree", "hprint_tree", "show", "hshow"):
        buf = io.StringIO()
        with contextlib.redirect_stdout(buf):
            if fn == "print_tree":
                export.print_tree(t, **o)
            elif fn == "hprint_tree":
                export.hprint_tree(t, **o)
            elif fn == "show":
                t.show(**o)
            else:
                t.hshow(**o)
        return "reader", buf.getvalue()
    if fn == "yield_tree":
        kw = dict(o)
        take = kw.pop("take", None)
        it = iter(export.yield_tree(t, **kw))
        if take is not None:
            import itertools
            got = [(a, b) for a, b, _ in itertools.islice(it, take)]
            _KEEP.append(it)
            return "reader", got
        return "reader", [(a, b) for a, b, _ in it]
    if fn == "hyield_tree":
        return "reader", list(export.hyield_tree(t, **o))
    if fn == "tree_to_newick":
        return "reader", export.tree_to_newick(t, **o)
    if fn == "tree_to_mermaid":
        return "reader", export.tree_to_mermaid(t, **o)
    if fn == "tree_to_dot":
        kw = dict(o)
        if kw.pop("as_list", False):
            t = [t]
        if kw.pop("callable_attr", False):
            kw["node_attr"] = lambda nd: {"shape": "box"} if nd.is_leaf else {}
        g = export.tree_to_dot(t, **kw)
        return "reader", g.to_string()
    if fn in ITERS:
        kw = {}
        if "filter" in o:
            kw["filter_condition"] = _cond(o["filter"])
        if "stop" in o and fn != "inorder_iter":
            kw["stop_condition"] = _cond(o["stop"])
        if o.get("max_depth"):
            kw["max_depth"] = o["max_depth"]
        it = iter(getattr(iterators, fn)(t, **kw))
        if "take" in o:
            # the generator stays suspended (and alive) while the input is inspected
            import itertools
            got = list(itertools.islice(it, o["take"]))
            _KEEP.append(it)
            return "nodes", flat(got)
        return "nodes", flat(list(it))
    if fn in SEARCH:
        f = getattr(search, fn)
        if fn in ("findall", "find"):
            r = f(t, _cond(o["cond"]), **{k: v for k, v in o.items() if k != "cond"})
        elif fn in ("find_children", "find_child"):
            r = f(t, _cond(o["cond"]))
        elif fn in ("find_attr", "find_attrs"):
            r = f(t, o["attr_name"], o["attr_value"], **({"max_depth": o["max_depth"]} if o.get("max_depth") else {}))
        elif fn in ("find_name", "find_names"):
            r = f(t, o["name"], **({"max_depth": o["max_depth"]} if o.get("max_depth") else {}))
        elif fn == "find_child_by_name":
            r = f(t, o["name"])
        else:
            r = f(t, o["path"])
        if r is None:
            return "nodes", []
        return "nodes", flat(r) if isinstance(r, (list, tuple)) else [r]
    if fn in EXPORT:
        return "data", getattr(export, fn)(t, **o)
    if fn == "node_copy":
        return "tree", t.copy()
    if fn == "deepcopy":
        return "tree", _copy.deepcopy(t)
    if fn == "shallow_copy":
        return "tree", _copy.copy(t)
    if fn == "clone_tree":
        return "tree", helper.clone_tree(t, type(t))
    if fn == "get_subtree":
        return "tree", helper.get_subtree(t, **o)
    if fn == "prune_tree":
        return "tree", helper.prune_tree(t, **o)
    if fn == "get_tree_diff_first":
        return "tree", helper.get_tree_diff(nodes[0], aux[0], **o)
    if fn == "get_tree_diff_second":
        return "tree", helper.get_tree_diff(aux[0], nodes[0], **o)
    if fn == "copy_nodes_from_tree_to_tree":
        modify.copy_nodes_from_tree_to_tree(nodes[0], aux[0], **o)
        return "tree_inplace", aux[0]
    if fn == "copy_and_replace_nodes_from_tree_to_tree":
        modify.copy_and_replace_nodes_from_tree_to_tree(nodes[0], aux[0], **o)
        return "tree_inplace", aux[0]
    if fn == "copy_nodes":
        # nodes = the subtree that is copied; aux = [root of the whole tree]
        modify.copy_nodes(aux[0], **o)
        return "tree_own", search.find_full_path(aux[0], o["to_paths"][0])
    if fn in DAG_FNS:
        from bigtree.dag import export as dexport
        if fn == "dag_iterator":
            return "nodes", flat(list(iterators.dag_iterator(t)))
        if fn == "dag_to_list":
            return "reader", dexport.dag_to_list(t)
        if fn == "dag_to_dot":
            kw = dict(o)
            arg = [t] if kw.pop("as_list", False) else t
            return "reader", dexport.dag_to_dot(arg, **kw).to_string()
        if fn == "dag_ancestors":
            return "nodes", list(t.ancestors)
        if fn == "dag_descendants":
            return "nodes", list(t.descendants)
        if fn == "dag_siblings":
            return "nodes", list(t.siblings)
        if fn == "dag_go_to":
            return "nodes", flat(t.go_to(nodes[case["target"]]))
        if fn in ("dag_to_dict", "dag_to_dataframe"):
            return "data", getattr(dexport, fn)(t, **o)
        if fn == "dag_copy":
            return "dag", t.copy()
        if fn == "dag_deepcopy":
            return "dag", _copy.deepcopy(t)
        if fn == "dag_shallow_copy":
            return "dag_one", _copy.copy(t)
    raise ValueError(fn)


def run_impl(prop, case):
    cls = case["cls"]
    del _KEEP[:]
    dag = cls == "DAGNode"
    nodes = _build(cls, case["tree"], case.get("sep", "/"), sub=case.get("sub_cls", False))
    aux = _build("Node", case["tree2"], case.get("sep2", "/"), sub=case.get("sub_cls", False)) if case.get("tree2") else []
    roots = [x for x, sp in zip(nodes, case["tree"]) if not sp[0]] if dag else None
    if case["fn"] == "copy_nodes":
        # the whole tree is built; the *input* is the subtree that gets copied (ids 0..n-1), every other
        # node of the tree is a foreign object (id >= n)
        aux = [nodes[0]]
        sub = case["sub"]
        nodes = [nodes[i] for i in sub]
    ctx = Ctx(nodes, dag=dag, roots=roots)
    ctx.keep.append(aux)
    before = snapshot(ctx)
    in_lists, in_vals = input_objs(ctx)
    sep_before = getattr(nodes[0], "_sep", None)
    code, kind, value = 0, "reader", None
    try:
        kind, value = _call(case, nodes, aux)
    except Exception as e:
        code = exn_code(e)
        if code == 0:
            code = 13
    ctx.keep.append(value)
    after = snapshot(ctx)
    obs = {"code": code, "kind": kind if code == 0 else "raised", "n": ctx.n, "before": before, "after": after,
           "in_lists": in_lists, "in_vals": in_vals, "out_lists": [], "out_vals": [],
           "ret_nodes": None, "result": None, "after_mr": None, "res1": None, "res2": None, "data": None,
           "dres": None, "dres12": None, "pairs": [], "res_paths": None,
           "sep_changed": getattr(nodes[0], "_sep", None) != sep_before}
    m1, m2 = case["mut_res"], case["mut_in"]
    if code != 0:
        # the call raised: the input must still be what it was; mutate it anyway to exercise nothing else
        return _finish(case, obs)
    if kind == "nodes":
        obs["ret_nodes"] = [ctx.node_id(x) for x in value if x is not None]
    elif kind == "data":
        obs["out_vals"] = data_objs(ctx, value)
        mutate_data(value)
        obs["after_mr"] = snapshot(ctx)
        d1 = data_code(ctx, value)
        (mutate_dag if dag else mutate_nodes)(list(nodes), m2, "i")
        obs["data"] = [d1, data_code(ctx, value)]
    elif kind in ("dag", "dag_one") and value is not None:
        members = dag_members(value, closure=(kind == "dag"))
        obs["dres"] = [dres_view(ctx, members), ctx.node_id(value)]
        obs["out_lists"], obs["out_vals"] = result_objs(ctx, None, members)
        mutate_dag(members, m1, "r")
        obs["after_mr"] = snapshot(ctx)
        d1 = dres_view(ctx, members)
        mutate_dag(list(nodes), m2, "i")
        obs["dres12"] = [d1, dres_view(ctx, members)]
    elif kind in ("tree", "tree_inplace", "tree_own") and value is not None and hasattr(value, "children"):
        if kind == "tree_inplace":
            obs["pairs"] = pairs_view(ctx, case, aux)
        view, top = result_view(ctx, value, own=(kind == "tree_own"))
        obs["result"] = view
        if kind == "tree":
            obs["res_paths"] = res_paths_view(ctx, case, top, value)
        obs["out_lists"], obs["out_vals"] = result_objs(ctx, top)
        side = _rt_nodes(top)
        if not any(x is value for x in side):
            side = side + [value]
        mutate_nodes(side, m1, "r")
        obs["after_mr"] = snapshot(ctx)
        top1 = top
        obs["res1"] = _rt(ctx, top1, set(), [400])
        mutate_nodes(list(nodes), m2, "i")
        obs["res2"] = _rt(ctx, top1, set(), [400])
    return _finish(case, obs)


# ---------------------------------------------------------------------------------------------
# python mirror of the PC07 clauses (used only to *classify* failures for the known findings and
# for explain(); the decision is taken in Coq)


def _sig_links(sig):
    return [sig["w"], [[e["p"], e["k"], e["pv"]] for e in sig["e"]]]


def _dres_links(d):
    return [[i, e["p"], e["k"], e["pv"]] for i, e in d]


def _dres_attrs(d):
    return [[e["nm"], [a[:2] for a in e["a"]]] for i, e in d]


def _dag_equal_part(before, start, res, ret):
    es = before["e"]
    n = len(es)
    byid = {}
    for i, e in res:
        byid.setdefault(i, e)
    names = {}
    for k, e in enumerate(es):
        names.setdefault(e["nm"], k)

    def m(rid):
        if rid is None:
            return None
        if rid < n:
            return rid
        return names.get(byid[rid]["nm"]) if rid in byid else None
    img = []
    for i, e in res:
        k = m(i)
        if k is None:
            return False
        img.append(k)
        ie = es[k]
        if e["nm"] != ie["nm"] or [a[:2] for a in e["a"]] != [a[:2] for a in ie["a"]]:
            return False
        if [m(q) for q in e["p"]] != ie["p"] or [m(c) for c in e["k"]] != ie["k"]:
            return False
    return len(set(img)) == len(img) and m(ret) == start and any(i == ret for i, _ in res)


def _sig_attrs(sig):
    return [[e["nm"], [a[:2] for a in e["a"]]] for e in sig["e"]]


def _sig_paths(sig):
    return [e.get("pt", 0) for e in sig["e"]]


def _rt_ids(t, acc):
    acc.append(t["id"])
    for k in t["k"]:
        if k is not None:
            _rt_ids(k, acc)
    return acc


def _rt_links(t):
    return [t["id"], [None if k is None else _rt_links(k) for k in t["k"]]]


def _rt_attrs(t):
    return [t["nm"], [a[:2] for a in t["a"]], [None if k is None else _rt_attrs(k) for k in t["k"]]]


def _sub_rt(before, i, fuel=60):
    e = before["e"][i]
    return {"nm": e["nm"], "a": [a[:2] for a in e["a"]],
            "k": [None if (k is None or k >= len(before["e"]) or fuel <= 0) else _sub_rt(before, k, fuel - 1) for k in e["k"]]}


def _strip(t):
    return {"nm": t["nm"], "a": [a[:2] for a in t["a"]], "k": [None if k is None else _strip(k) for k in t["k"]]}


def _embeds(r, i, exact):
    """is r the tree i (exact: slot by slot) / an order-preserving part of it (children may be missing)"""
    if r["nm"] != i["nm"] or r["a"] != i["a"]:
        return False
    if exact:
        if len(r["k"]) != len(i["k"]):
            return False
        for a, b in zip(r["k"], i["k"]):
            if (a is None) != (b is None):
                return False
            if a is not None and not _embeds(a, b, True):
                return False
        return True
    rk = [k for k in r["k"] if k is not None]
    ik = [k for k in i["k"] if k is not None]
    j = 0
    for a in rk:
        while j < len(ik) and not _embeds(a, ik[j], False):
            j += 1
        if j == len(ik):
            return False
        j += 1
    return True


def _compact(t):
    ks = [_compact(k) for k in t["k"] if k is not None]
    pad = [None] * (len(t["k"]) - len(ks))
    return {"nm": t["nm"], "a": t["a"], "k": ks + pad}


def _has_right_only(before):
    return any(len(e["k"]) == 2 and e["k"][0] is None and e["k"][1] is not None for e in before["e"])


def equal_part_mode(case):
    """(anchor index, mode) for functions whose result must equal a part of the input; None otherwise.
    mode: exact | part"""
    fn = case["fn"]
    if fn in ("node_copy", "deepcopy", "clone_tree"):
        return 0, "exact"
    if fn == "copy_nodes":
        return 0, ("part" if case["opts"].get("delete_children") else "exact")
    if fn == "shallow_copy":
        return case["start"], "exact"
    if fn == "get_subtree":
        return case["found"], ("part" if case["opts"].get("max_depth") else "exact")
    if fn == "prune_tree":
        return 0, "part"
    return None


def clauses(case, obs):
    n = obs["n"]
    cl = {}
    b, a = obs["before"], obs["after"]
    cl["unchanged_links"] = _sig_links(b) == _sig_links(a)
    cl["unchanged_attrs"] = _sig_attrs(b) == _sig_attrs(a)
    cl["unchanged_path"] = _sig_paths(b) == _sig_paths(a)
    res = obs["result"]
    if res is not None:
        ids = _rt_ids(res["t"], []) + res["up"] + [res["ret"]]
        cl["fresh_nodes"] = all(i >= n for i in ids)
        cl["fresh_lists"] = not (set(obs["in_lists"]) & set(obs["out_lists"]))
        mode = equal_part_mode(case)
        if mode is not None and mode[0] < n:
            exp = _sub_rt(b, mode[0])
            cl["equal_part"] = _embeds(_strip(res["t"]), exp, mode[1] == "exact")
            if not cl["equal_part"] and case["fn"] == "clone_tree":
                cl["equal_modulo_slots"] = _embeds(_strip(res["t"]), _compact(exp), True)
    dres = obs.get("dres")
    if dres is not None:
        ids = [dres[1]]
        for i, e in dres[0]:
            ids += [i] + e["p"] + [k for k in e["k"] if k is not None]
        cl["fresh_nodes"] = all(i >= n for i in ids)
        cl["fresh_lists"] = not (set(obs["in_lists"]) & set(obs["out_lists"]))
        cl["equal_part"] = _dag_equal_part(b, case["start"], dres[0], dres[1])
    if obs.get("dres12") is not None:
        cl["indep_result_links"] = _dres_links(obs["dres12"][0]) == _dres_links(obs["dres12"][1])
        cl["indep_result_attrs"] = _dres_attrs(obs["dres12"][0]) == _dres_attrs(obs["dres12"][1])
    if obs["kind"] in ("tree", "tree_inplace", "tree_own", "data", "dag", "dag_one"):
        cl["fresh_vals"] = not (set(obs["in_vals"]) & set(obs["out_vals"]))
    rp = obs.get("res_paths")
    if rp is not None and rp[0] in (0, 1):
        inp = _sig_paths(b)
        ok = (rp[1] == inp) if rp[0] == 0 else all(x in inp for x in rp[1])
        cl["equal_path"] = ok
    for anchor, exact, t in obs.get("pairs", []):
        ok = anchor < n and _embeds(_strip(t), _sub_rt(b, anchor), exact)
        cl["equal_part"] = cl.get("equal_part", True) and ok
    if obs["after_mr"] is not None:
        cl["indep_input_links"] = _sig_links(b) == _sig_links(obs["after_mr"])
        cl["indep_input_attrs"] = _sig_attrs(b) == _sig_attrs(obs["after_mr"])
        # (a rename of a result node must not show; the input's own sep / path_name as before the call)
        cl["indep_input_path"] = _sig_paths(b) == _sig_paths(obs["after_mr"])
    if obs["res1"] is not None:
        cl["indep_result_links"] = _rt_links(obs["res1"]) == _rt_links(obs["res2"])
        cl["indep_result_attrs"] = _rt_attrs(obs["res1"]) == _rt_attrs(obs["res2"])
    if obs["data"] is not None:
        cl["indep_result_attrs"] = obs["data"][0] == obs["data"][1]
    return cl


def _finish(case, obs):
    obs["clauses"] = clauses(case, obs)
    return obs


# ---------------------------------------------------------------------------------------------
# known findings


_KF_CACHE = {}


def _active_findings():
    if "ids" not in _KF_CACHE:
        path = os.path.join(os.path.dirname(os.path.dirname(os.path.dirname(os.path.abspath(__file__)))),
                            "known_findings.json")
        try:
            ents = json.load(open(path)).get("entries", [])
        except Exception:
            ents = []
        _KF_CACHE["ids"] = {e.get("id") for e in ents if e.get("status") == "finding" and e.get("property") == "C07"}
    return _KF_CACHE["ids"]


K4_CLAUSES = {"fresh_nodes", "fresh_lists", "fresh_vals", "indep_input_links", "indep_input_attrs", "indep_input_path",
              "indep_result_links", "indep_result_attrs"}
K5_CLAUSES = {"fresh_vals", "indep_input_attrs", "indep_result_attrs"}
K6_CLAUSES = {"equal_part"}
K7_CLAUSES = {"unchanged_path", "indep_input_path"}


def explained_by(case, obs):
    """which known findings explain which failing clauses of this case: {finding id: set of clauses}"""
    cl = obs.get("clauses", {})
    failing = {k for k, v in cl.items() if v is False and k != "equal_modulo_slots"}
    out = {}
    fn = case["fn"]
    if fn in ("shallow_copy", "dag_shallow_copy"):
        out["K4-C07"] = failing & K4_CLAUSES
    if sep_written(case):
        out["K7-C07"] = failing & K7_CLAUSES
    if fn == "clone_tree":
        if set(obs["in_vals"]) & set(obs["out_vals"]):
            out["K5-C07"] = failing & K5_CLAUSES
        if (case["cls"] == "BinaryNode" and _has_right_only(obs["before"]) and cl.get("equal_modulo_slots") is True):
            out["K6-C07"] = failing & K6_CLAUSES
    return failing, out


def matches_finding(prop, entry, case, obs, flags):
    if prop != "C07" or entry.get("property") != "C07" or entry.get("status") != "finding":
        return False
    if not isinstance(obs, dict) or "_harness_error" in obs or flags != 2:
        return False           # the faithful model must agree with the implementation on a known finding
    failing, ex = explained_by(case, obs)
    fid = entry.get("id")
    if fid not in ex or not ex[fid]:
        return False
    covered = set()
    for k, v in ex.items():
        if k in _active_findings():
            covered |= v
    return failing <= covered


# ---------------------------------------------------------------------------------------------
# Coq literals


def _cids(l):
    return clist("None" if x is None else f"Some {int(x)}" for x in l)


def _cattrs(a):
    return clist(f"({k},{c},{ad})" for k, c, ad in a)


def _centry(e):
    pv = "None" if e["pv"] is None else f"(Some ({_cnl(e['pv'][0])}, {_cids(e['pv'][1])}))"
    return f"E {_cnl(e['p'])} {_cids(e['k'])} {cstr(e['nm'])} {_cattrs(e['a'])} {pv} {int(e.get('pt', 0))}"


def _cdres(d):
    return clist(f"({int(i)}, {_centry(e)})" for i, e in d)


def _csig(s):
    return "SG " + clist(str(int(x)) for x in s["w"]) + " " + clist(_centry(e) for e in s["e"])


def _crt(t):
    kids = clist("None" if k is None else f"Some ({_crt(k)})" for k in t["k"])
    return f"RT {t['id']} {cstr(t['nm'])} {_cattrs(t['a'])} {t['kl']} {kids}"


def _cnl(l):
    return clist(str(int(x)) for x in l)


def _cfn(case, obs):
    fn = case["fn"]
    st = case["start"]
    if obs["code"] != 0:
        return "FRaised"
    if fn in RENDER or fn in ("dag_to_list", "dag_to_dot"):
        return "FReader"
    if fn in ITERS or fn in SEARCH or fn in DAG_READ:
        return "FNodes"
    if fn in DAG_EXPORT:
        return f"FDagExport {st}"
    if fn in ("dag_copy", "dag_deepcopy"):
        return f"FDagCopy {st}"
    if fn == "dag_shallow_copy":
        return f"FDagShallow {st}"
    if fn == "copy_nodes":
        return f"FCopyNodes {cbool(not case['opts'].get('delete_children'))}"
    if fn in EXPORT:
        return f"FExport {st}"
    if fn in ("node_copy", "deepcopy"):
        return f"FDeepCopy {st}"
    if fn == "shallow_copy":
        return f"FShallowCopy {st}"
    if fn == "clone_tree":
        return f"FClone {st}"
    if fn == "get_subtree":
        return f"FSubtree {st} {case['found']} {int(case['opts'].get('max_depth', 0))}"
    if fn == "prune_tree":
        return (f"FPrune {st} {_cnl(case['targets'])} {cbool(case['opts'].get('exact', False))} "
                f"{int(case['opts'].get('max_depth', 0))}")
    if fn.startswith("get_tree_diff"):
        return "FDiff"
    return "FCopyOut"


def sep_written(case):
    """get_tree_diff(tree, other_tree) sets other_tree.sep = tree.sep (helper.py:336): the input is other_tree and
    the two separators differ"""
    return case["fn"] == "get_tree_diff_second" and case.get("sep", "/") != case.get("sep2", "/")


def emit(prop, case, obs):
    res = obs["result"]
    cres = "None" if res is None else f"(Some ({_crt(res['t'])}, {res['ret']}, {_cnl(res['up'])}))"
    parts = [
        {"Node": "0", "BinaryNode": "1", "DAGNode": "2"}[case["cls"]],
        _cfn(case, obs),
        str(int(obs["n"])),
        _csig(obs["before"]), _csig(obs["after"]),
        _cnl(obs["in_lists"]), _cnl(obs["in_vals"]), _cnl(obs["out_lists"]), _cnl(obs["out_vals"]),
        "None" if obs["ret_nodes"] is None else f"Some {_cnl(obs['ret_nodes'])}",
        cres,
        "None" if obs["after_mr"] is None else f"Some ({_csig(obs['after_mr'])})",
        "None" if obs["res1"] is None else f"Some ({_crt(obs['res1'])}, {_crt(obs['res2'])})",
        "None" if obs["data"] is None else f"Some ({obs['data'][0]}, {obs['data'][1]})",
        "None" if obs.get("dres") is None else f"Some ({_cdres(obs['dres'][0])}, {int(obs['dres'][1])})",
        "None" if obs.get("dres12") is None else f"Some ({_cdres(obs['dres12'][0])}, {_cdres(obs['dres12'][1])})",
        clist(f"({int(a)}, {cbool(ex)}, {_crt(t)})" for a, ex, t in obs.get("pairs", [])),
        cbool(case.get("expect_ok", False)),
        ("None" if obs.get("res_paths") is None else
         f"Some ({int(obs['res_paths'][0])}, {_cnl(obs['res_paths'][1])}, {_cnl(obs['res_paths'][2])})"),
        cbool(sep_written(case)),
    ]
    return "EC " + " ".join(f"({p})" for p in parts)


# ---------------------------------------------------------------------------------------------
# generation


def _preorder_relabel(parents):
    n = len(parents)
    kids = [[] for _ in range(n)]
    for i in range(1, n):
        kids[parents[i]].append(i)
    order = []

    def rec(x):
        order.append(x)
        for c in kids[x]:
            rec(c)
    rec(0)
    new = {old: k for k, old in enumerate(order)}
    return [None if old == 0 else new[parents[old]] for old in order]


def gen_tree(rng, cls, nmax=9, shape=None, pool=None, attr_rate=0.6):
    shape = shape or rng.choice(["wide", "deep", "mixed", "path", "star", "mixed"])
    n = rng.randint(3, nmax)
    r = rng.random()
    if r < 0.10:
        n, shape = 1, "single"            # a node that is root and leaf at once
    elif r < 0.16:
        n, shape = 2, "pair"
    fan = 2 if cls == "BinaryNode" else 6
    parents = [None]
    cnt = [0]
    for i in range(1, n):
        for _ in range(50):
            if shape == "path":
                p = i - 1
            elif shape == "star":
                p = 0
            elif shape == "deep":
                p = rng.randint(max(0, i - 2), i - 1)
            elif shape == "wide":
                p = rng.randint(0, min(i - 1, 1 + i // 4))
            else:
                p = rng.randrange(i)
            if cnt[p] < fan:
                break
        else:
            p = next(q for q in range(i) if cnt[q] < fan)
        parents.append(p)
        cnt[p] += 1
        cnt.append(0)
    parents = _preorder_relabel(parents)
    pool_name = pool or rng.choice(list(NAME_POOLS))
    pool_l = NAME_POOLS[pool_name]
    off = rng.randrange(len(pool_l))
    spec = []
    used = {}                     # parent -> names already used among its children
    slots = {}
    for i, p in enumerate(parents):
        nm = pool_l[(off + i) % len(pool_l)]
        if cls == "BinaryNode":
            nm = str(rng.randint(1, 9)) if rng.random() < 0.5 else nm
        if p is not None and cls != "BinaryNode":
            k = 0
            while nm in used.setdefault(p, set()):
                nm = pool_l[(off + i + k) % len(pool_l)] + ("" if k < len(pool_l) else str(k))
                k += 1
            used[p].add(nm)
        attrs = {}
        if rng.random() < attr_rate:
            keys = ["age", "tags", "meta", "w"]
            if rng.random() < 0.2:
                # names that collide with, or are affixes of, names the library uses itself
                keys = keys + ["depth", "path", "n", "names", "name_en", "shift", "x", "y", "style", "label"]
            for key in rng.sample(keys, rng.randint(1, 2)):
                v = rng.choice(ATTR_VALUES)
                if key == "tags" and rng.random() < 0.7:
                    v = rng.choice([[1, 2], ["p", "q"], [[1], 2], [3]])
                if key == "meta" and rng.random() < 0.6:
                    v = rng.choice([{"k": [1]}, {"u": 1}])
                attrs[key] = v
        slot = 0
        if p is not None and cls == "BinaryNode":
            taken = slots.setdefault(p, [])
            if not taken:
                slot = rng.choice([0, 1]) if parents.count(p) == 1 else 0
            else:
                slot = 1 - taken[0]
            taken.append(slot)
        spec.append([p, nm, attrs, slot])
    return spec, shape, pool_name


def _paths(spec, sep):
    out = []
    for i, (p, nm, _, _) in enumerate(spec):
        out.append(sep + nm if p is None else out[p] + sep + nm)
    return out


def _subtree(spec, i):
    out = [i]
    for j in range(i + 1, len(spec)):
        if spec[j][0] in out:
            out.append(j)
    return out


def _unambiguous(paths, members, j):
    return sum(1 for k in members if paths[k].endswith(paths[j])) == 1


def _rand_cond(rng, spec):
    names = sorted({s[1] for s in spec})
    r = rng.random()
    if r < 0.3:
        return ["name_in", rng.sample(names, min(len(names), rng.randint(1, 3)))]
    if r < 0.5:
        return ["name_not_in", rng.sample(names, min(len(names), rng.randint(1, 2)))]
    if r < 0.65:
        return ["has_attr", rng.choice(["age", "tags", "meta"])]
    if r < 0.8:
        return ["leaf"]
    return ["true"]


def _ints(rng):
    return [rng.randrange(1000) for _ in range(4)]


def gen_dag(rng, nmax=8):
    n = rng.randint(3, nmax)
    r = rng.random()
    if r < 0.10:
        n = 1
    elif r < 0.16:
        n = 2
    pool = NAME_POOLS["distinct"]
    off = rng.randrange(len(pool))
    spec = []
    for i in range(n):
        k = 0 if i == 0 else rng.choice([0, 1, 1, 2, 2, 3])
        pars = sorted(rng.sample(range(i), min(i, k)))
        if rng.random() < 0.5:
            rng.shuffle(pars)
        attrs = {}
        if rng.random() < 0.6:
            for key in rng.sample(["age", "tags", "w"], rng.randint(1, 2)):
                attrs[key] = rng.choice([1, 2, 90, "x", None, 2.5]) if (key != "tags" or rng.random() < 0.4) \
                    else rng.choice([[1, 2], ["p"], {"k": [1]}, [[1], 2]])
        spec.append([pars, pool[(off + i) % len(pool)] + (str(i) if i >= len(pool) else ""), attrs, 0])
    return spec


def _dag_desc(spec, i):
    out = []
    for j in range(len(spec)):
        if j != i and (i in spec[j][0] or any(q in out for q in spec[j][0])):
            out.append(j)
    return out


def gen_dag_case(rng, fn):
    spec = gen_dag(rng)
    n = len(spec)
    start = 0 if rng.random() < 0.3 else rng.randrange(n)
    o = {}
    case = {"cls": "DAGNode", "fn": fn, "tree": spec, "start": start, "opts": o,
            "mut_res": _ints(rng), "mut_in": _ints(rng), "stratum": "dag"}
    if fn == "dag_go_to":
        d = _dag_desc(spec, start)
        case["target"] = rng.choice(d) if d and rng.random() < 0.85 else rng.randrange(n)
    elif fn == "dag_to_dict":
        if rng.random() < 0.6:
            o["all_attrs"] = True
        else:
            o["attr_dict"] = {k: k.upper() for k in rng.sample(["age", "tags", "w"], 2)}
        if rng.random() < 0.3:
            o["parent_key"] = "par"
    elif fn == "dag_to_dataframe":
        if rng.random() < 0.5:
            o["all_attrs"] = True
        else:
            o["attr_dict"] = {k: k.upper() for k in rng.sample(["age", "w"], rng.randint(1, 2))}
    elif fn == "dag_to_dot":
        o["rankdir"] = rng.choice(["TB", "LR"])
        if rng.random() < 0.5:
            o["node_colour"] = "gold"
        if rng.random() < 0.4:
            o["node_shape"] = "box"
        if rng.random() < 0.4:
            o["edge_colour"] = "blue"
        if rng.random() < 0.5:
            o["node_attr"] = "nstyle"
        if rng.random() < 0.4:
            o["edge_attr"] = "estyle"
        if rng.random() < 0.4:
            o["as_list"] = True
        for sp in spec:
            if rng.random() < 0.6:
                sp[2]["nstyle"] = rng.choice([{"fillcolor": "red"}, {"shape": "circle"}, {}])
            if rng.random() < 0.5:
                sp[2]["estyle"] = rng.choice([{"label": "e"}, {"style": "bold"}, {}])
    if fn in MUST_RETURN:
        case["expect_ok"] = True
    return case


def gen_copy_nodes_case(rng):
    for _ in range(50):
        spec, shape, pool = gen_tree(rng, "Node", nmax=9)
        n = len(spec)
        if n < 3:
            continue
        sep = rng.choice(SEPS) if rng.random() < 0.3 else "/"
        paths = _paths(spec, sep)
        j = rng.randrange(1, n)
        sub = _subtree(spec, j)
        cands = [q for q in range(n) if q not in sub and q != spec[j][0]]
        if not cands:
            continue
        q = rng.choice(cands)
        o = {"from_paths": [paths[j]], "to_paths": [paths[q] + sep + spec[j][1]], "sep": sep}
        existing = [i for i, s2 in enumerate(spec) if s2[0] == q and s2[1] == spec[j][1]]
        if existing:
            if j in _subtree(spec, existing[0]):
                continue          # overriding an ancestor of the from-node removes the from-node's own ancestors
            o["overriding"] = True
        if rng.random() < 0.25:
            o["delete_children"] = True
        if rng.random() < 0.2 or not _unambiguous(paths, range(n), j):
            o["with_full_path"] = True
        return {"cls": "Node", "fn": "copy_nodes", "tree": spec, "sep": sep, "start": 0, "sub": sub, "opts": o,
                "expect_ok": True,
                "mut_res": _ints(rng), "mut_in": _ints(rng), "stratum": f"{shape}/{pool}"}
    raise RuntimeError("no copy_nodes case")


def gen_case(rng, fn=None, cls=None, nmax=9):
    fn = fn or rng.choice(ALL_FNS)
    if fn in DAG_FNS:
        return gen_dag_case(rng, fn)
    if fn == "copy_nodes":
        return gen_copy_nodes_case(rng)
    if fn in NODE_ONLY:
        cls = "Node"
    elif fn in BINARY_ONLY:
        cls = "BinaryNode"
    cls = cls or rng.choice(["Node", "Node", "BinaryNode"])
    spec, shape, pool = gen_tree(rng, cls, nmax=nmax)
    n = len(spec)
    sub_kind = False
    if cls == "Node":
        r = rng.random()
        if r < 0.12:
            sub_kind = True
        elif r < 0.20 and fn not in EQ_UNSAFE:
            # value semantics: only with names that are pairwise distinct over the WHOLE tree, so that == on
            # nodes of one tree coincides with identity (sets / dict keys / list.index / `in` on nodes)
            sub_kind = "eq"
            seen = set()
            for i, sp in enumerate(spec):
                if sp[1] in seen:
                    sp[1] = f"{sp[1]}_{i}"
                seen.add(sp[1])
        elif r < 0.28 and fn not in FALSY_UNSAFE:
            sub_kind = "falsy"
    sep = rng.choice(SEPS) if cls == "Node" and rng.random() < 0.4 else "/"
    paths = _paths(spec, sep)
    start = 0 if rng.random() < 0.45 else rng.randrange(n)
    o = {}
    case = {"cls": cls, "fn": fn, "tree": spec, "sep": sep, "start": start, "opts": o,
            "mut_res": _ints(rng), "mut_in": _ints(rng), "stratum": f"{shape}/{pool}"}
    members = _subtree(spec, start)
    md = rng.choice([0, 0, 1, 2, 3])
    target = rng.choice(members)
    if fn in ("print_tree", "yield_tree", "hprint_tree", "hyield_tree", "show", "hshow"):
        if rng.random() < 0.4 and _unambiguous(paths, members, target):
            o["node_name_or_path"] = paths[target]
        if md:
            o["max_depth"] = md
        if fn in ("print_tree", "show"):
            if rng.random() < 0.4:
                o["all_attrs"] = True
            elif rng.random() < 0.5:
                o["attr_list"] = rng.sample(["age", "tags", "meta", "w"], 2)
                o["attr_omit_null"] = rng.random() < 0.5
            o["style"] = rng.choice(["const", "ansi", "ascii", "rounded", "double", "const_bold"])
            if rng.random() < 0.2:
                o["style"] = ["|  ", "+- ", "`- "]
            if rng.random() < 0.2:
                o["attr_bracket"] = ["(", ")"]
        elif fn == "yield_tree":
            o["style"] = rng.choice(["const", "ansi", "ascii", "rounded", "double"])
            if rng.random() < 0.25:
                o["take"] = rng.randint(0, 2)
        else:
            o["intermediate_node_name"] = rng.random() < 0.7
            o["style"] = rng.choice(["const", "ansi", "ascii", "rounded", "double"])
    elif fn == "tree_to_newick":
        o["intermediate_node_name"] = rng.random() < 0.7
        if rng.random() < 0.4:
            o["length_attr"] = "age"
        if rng.random() < 0.4:
            o["attr_list"] = rng.sample(["age", "tags", "w"], 2)
    elif fn == "tree_to_mermaid":
        o["rankdir"] = rng.choice(["TB", "LR"])
        if rng.random() < 0.3:
            o["node_colour"] = "red"
        if rng.random() < 0.3:
            o["edge_label"] = "w"
        if md:
            o["max_depth"] = md
        if rng.random() < 0.4 and _unambiguous(paths, members, target):
            o["node_name_or_path"] = paths[target]
        if rng.random() < 0.2:
            o["node_shape"] = rng.choice(["rhombus", "circle"])
    elif fn == "tree_to_dot":
        if rng.random() < 0.5:
            o["as_list"] = True
        if rng.random() < 0.5:
            o["edge_colour"] = "blue"
        if rng.random() < 0.5:
            o["node_shape"] = "box"
        if rng.random() < 0.6:
            o["node_attr"] = "nstyle"
        if rng.random() < 0.5:
            o["edge_attr"] = "estyle"
        for sp in spec:
            if rng.random() < 0.6:
                sp[2]["nstyle"] = rng.choice([{"fillcolor": "red"}, {"shape": "circle"}, {"style": "filled", "fillcolor": "green"}, {}])
            if rng.random() < 0.5:
                sp[2]["estyle"] = rng.choice([{"label": "e"}, {"style": "bold"}, {}])
        o["directed"] = rng.random() < 0.7
        if rng.random() < 0.5:
            o["node_colour"] = "gold"
        if "node_attr" not in o and rng.random() < 0.3:
            o["callable_attr"] = True
    elif fn in ITERS:
        if rng.random() < 0.5:
            o["filter"] = _rand_cond(rng, spec)
        if rng.random() < 0.3:
            o["stop"] = _rand_cond(rng, spec)
        o["max_depth"] = md
        if rng.random() < 0.25:
            o["take"] = rng.randint(0, 2)
    elif fn in ("findall", "find"):
        o["cond"] = _rand_cond(rng, spec)
        if md:
            o["max_depth"] = md
        if fn == "findall" and rng.random() < 0.3:
            o["min_count"] = rng.randint(0, 2)
    elif fn in ("find_children", "find_child"):
        o["cond"] = _rand_cond(rng, spec)
    elif fn in ("find_attr", "find_attrs"):
        o["attr_name"] = rng.choice(["age", "tags", "w"])
        o["attr_value"] = rng.choice([1, 2, 90, "x", [1, 2]])
        o["max_depth"] = md
    elif fn in ("find_name", "find_names", "find_child_by_name"):
        o["name"] = spec[rng.randrange(n)][1]
        if fn != "find_child_by_name":
            o["max_depth"] = md
    elif fn in ("find_full_path", "find_path", "find_paths"):
        j = rng.randrange(n)
        o["path"] = paths[j] if (fn == "find_full_path" or rng.random() < 0.5) else sep.join(paths[j].split(sep)[-2:])
    elif fn in ("find_relative_path", "find_relative_paths"):
        o["path"] = rng.choice(["..", "*", "../*", spec[target][1], "*/" + spec[target][1], paths[target], "."])
    elif fn in ("tree_to_dataframe", "tree_to_polars", "tree_to_dict"):
        if rng.random() < 0.6:
            o["all_attrs"] = True
        else:
            o["attr_dict"] = {k: k.upper() for k in rng.sample(["age", "tags", "meta", "w"], 2)}
        if rng.random() < 0.4:
            o["parent_col" if fn != "tree_to_dict" else "parent_key"] = "parent"
        if md:
            o["max_depth"] = md
        if rng.random() < 0.2:
            o["skip_depth"] = 1
        if rng.random() < 0.2:
            o["leaf_only"] = True
    elif fn == "tree_to_nested_dict":
        if rng.random() < 0.6:
            o["all_attrs"] = True
        else:
            o["attr_dict"] = {k: k.upper() for k in rng.sample(["age", "tags", "meta", "w"], 2)}
        if md:
            o["max_depth"] = md
    elif fn == "get_subtree":
        case["found"] = start
        if cls == "Node" and rng.random() < 0.6 and _unambiguous(paths, members, target):
            o["node_name_or_path"] = paths[target]
            case["found"] = target
        if md:
            o["max_depth"] = md
    elif fn == "prune_tree":
        tg = []
        if cls == "Node" or rng.random() < 0.5:
            cands = [j for j in members if _unambiguous(paths, members, j)]
            rng.shuffle(cands)
            tg = sorted(cands[: rng.choice([0, 1, 1, 2])])
        if not tg and not md:
            md = rng.randint(1, 3)
        case["targets"] = tg
        if tg:
            arg_sep = sep
            if cls == "Node" and rng.random() < 0.4:
                arg_sep = rng.choice([x for x in SEPS if x != sep])       # the caller writes paths with another separator
            wr = [paths[j].replace(sep, arg_sep) for j in tg]
            o["prune_path"] = wr if len(tg) > 1 or rng.random() < 0.5 else wr[0]
            o["exact"] = rng.random() < 0.4
            o["sep"] = arg_sep
        if md:
            o["max_depth"] = md
    elif fn.startswith("get_tree_diff"):
        case["start"] = 0
        spec2 = json.loads(json.dumps(spec))
        # the other tree: same root, some nodes dropped / renamed / attributes changed
        drop = set()
        for j in range(1, n):
            if spec2[j][0] in drop or rng.random() < 0.2:
                drop.add(j)
        keep = [j for j in range(n) if j not in drop]
        remap = {old: k for k, old in enumerate(keep)}
        t2 = []
        for old in keep:
            p, nm, at, sl = spec2[old]
            if rng.random() < 0.15 and p is not None:
                nm = nm + "2"
            if rng.random() < 0.3:
                at = dict(at)
                at["age"] = rng.choice([1, 5, 90])
            t2.append([None if p is None else remap[p], nm, at, 0])
        # sibling names must stay unique
        seen = set()
        ok = []
        rem2 = {}
        for k, (p, nm, at, sl) in enumerate(t2):
            if p is not None and (p not in rem2 or (rem2[p], nm) in seen):
                continue
            rem2[k] = len(ok)
            if p is not None:
                seen.add((rem2[p], nm))
            ok.append([None if p is None else rem2[p], nm, at, 0])
        case["tree2"] = ok
        if rng.random() < 0.75:
            case["sep"] = sep = "/"        # (get_tree_diff rebuilds with the default separator; others mostly raise)
        case["sep2"] = sep if rng.random() < 0.8 else rng.choice(SEPS)
        o["only_diff"] = rng.random() < 0.6
        if rng.random() < 0.5:
            o["attr_list"] = ["age"]
    elif fn in ("copy_nodes_from_tree_to_tree", "copy_and_replace_nodes_from_tree_to_tree"):
        case["start"] = 0
        spec2, _, _ = gen_tree(rng, "Node", nmax=5, pool="distinct", attr_rate=0.3)
        while len(spec2) < 2:
            spec2, _, _ = gen_tree(rng, "Node", nmax=5, pool="distinct", attr_rate=0.3)
        spec2 = [[p, "t" + nm, at, sl] for p, nm, at, sl in spec2]
        case["tree2"] = spec2
        sep2 = sep if rng.random() < 0.5 else rng.choice(SEPS)
        case["sep2"] = sep2
        p2 = _paths(spec2, sep)          # every path argument is written with `sep`; the trees have their own
        k = rng.choice([1, 1, 2])
        cands = list(range(1, n)) or [0]
        rng.shuffle(cands)
        fr = sorted(cands[:k])
        # keep the from-nodes unrelated (none inside another) so that the call is meaningful
        fr = [j for j in fr if not any(j != i and j in _subtree(spec, i) for i in fr)]
        o["from_paths"] = [paths[j] for j in fr]
        if fn == "copy_nodes_from_tree_to_tree" and n >= 3 and rng.random() < 0.45:
            # several pairs, overlapping on purpose (nested from-nodes, the same node twice); every pair gets
            # its own new destination so that each copy has to equal the source subtree
            k = rng.choice([2, 2, 3])
            fr = [rng.randrange(1, n)]
            while len(fr) < k:
                r = rng.random()
                last = fr[-1]
                if r < 0.35 and spec[last][0] not in (None, 0):
                    fr.append(spec[last][0])                       # then its parent
                elif r < 0.55:
                    fr.append(last)                                # the same node again
                elif r < 0.75 and len(_subtree(spec, last)) > 1:
                    fr.append(rng.choice(_subtree(spec, last)[1:]))    # a node inside it
                else:
                    fr.append(rng.randrange(1, n))
            dc = rng.random() < 0.2
            o["from_paths"] = [paths[j] for j in fr]
            o["to_paths"] = [p2[0] + sep + f"d{i}" + sep + spec[j][1] for i, j in enumerate(fr)]
            if dc:
                o["delete_children"] = True
            case["pairs"] = [[j, o["to_paths"][i], not dc] for i, j in enumerate(fr)]
            case["expect_ok"] = True
        elif fn == "copy_nodes_from_tree_to_tree":
            dest = []
            for j in fr:
                b = rng.randrange(len(p2))
                nm = spec[j][1]
                taken = {s2[1] for s2 in spec2 if s2[0] == b}
                if rng.random() < 0.3 and nm not in taken:
                    # the destination already exists: needs overriding / merge_children / merge_leaves
                    spec2.append([b, nm, {}, 0])
                    if rng.random() < 0.5:
                        spec2.append([len(spec2) - 1, "tz", {}, 0])
                dest.append(p2[b] + sep + nm)
            if len(set(dest)) < len(dest):
                dest, fr = dest[:1], fr[:1]
                o["from_paths"] = [paths[j] for j in fr]
            o["to_paths"] = dest
            for flag in ("overriding", "merge_children", "merge_leaves", "delete_children", "skippable"):
                if rng.random() < 0.25:
                    o[flag] = True
            if o.get("merge_children") and o.get("merge_leaves"):
                del o["merge_leaves"]
        else:
            cands2 = list(range(1, len(spec2)))
            rng.shuffle(cands2)
            cands2 = cands2[: len(fr)]
            cands2 = [j for j in cands2 if not any(j != i and j in _subtree(spec2, i) for i in cands2)]
            m = min(len(fr), len(cands2))
            o["from_paths"] = o["from_paths"][:m]
            o["to_paths"] = [p2[j] for j in cands2[:m]]
            if rng.random() < 0.3:
                o["delete_children"] = True
            if rng.random() < 0.2:
                o["skippable"] = True
            if m == 1:
                # the copy takes the place of the destination node, under the from-node's name
                j2 = cands2[0]
                case["pairs"] = [[fr[0], p2[spec2[j2][0]] + sep + spec[fr[0]][1], not o.get("delete_children")]]
                case["expect_ok"] = True
        o["sep"] = sep
        if case.get("expect_ok") and any(not _unambiguous(paths, range(n), j) for j in fr):
            o["with_full_path"] = True       # from-paths are looked up by suffix unless this is set
    if sub_kind:
        case["sub_cls"] = sub_kind
    if fn in MUST_RETURN:
        case["expect_ok"] = True
    return case


def corpus(prop):
    out = []
    t3 = [[None, "a", {"tags": [1, 2]}, 0], [0, "b", {}, 0], [0, "c", {"tags": [3]}, 0], [2, "d", {}, 0]]
    base = {"sep": "/", "opts": {}, "mut_res": [1, 2, 0, 1], "mut_in": [2, 1, 3, 2], "stratum": "corpus"}
    # K4: copy.copy shares the children list object and the child nodes
    out.append(("K4-shallow-root", dict(base, cls="Node", fn="shallow_copy", tree=[[None, "a", {}, 0], [0, "b", {}, 0]], start=0)))
    out.append(("K4-shallow-inner", dict(base, cls="Node", fn="shallow_copy", tree=t3, start=2)))
    out.append(("K4-shallow-binary", dict(base, cls="BinaryNode", fn="shallow_copy",
                                          tree=[[None, "1", {}, 0], [0, "2", {}, 1]], start=0)))
    # K5: clone_tree passes attribute values by reference
    out.append(("K5-clone-shared-value", dict(base, cls="Node", fn="clone_tree", tree=t3, start=0)))
    # K6: clone_tree(BinaryNode) moves a right-only child to the left slot
    out.append(("K6-clone-right-only", dict(base, cls="BinaryNode", fn="clone_tree",
                                            tree=[[None, "1", {}, 0], [0, "2", {}, 1]], start=0)))
    # regression shapes for the mutants of the brief
    t5 = [[None, "a", {"meta": {"k": [1]}}, 0], [0, "c", {}, 0], [1, "e", {"tags": [1, 2]}, 0], [2, "g", {}, 0],
          [1, "d", {}, 0], [0, "b", {"age": 1}, 0]]
    out.append(("subtree-inner", dict(base, cls="Node", fn="get_subtree", tree=t5, start=0, found=1,
                                      opts={"node_name_or_path": "/a/c", "max_depth": 2})))
    out.append(("prune-inner", dict(base, cls="Node", fn="prune_tree", tree=t5, start=0, targets=[2],
                                    opts={"prune_path": "/a/c/e", "exact": False, "sep": "/"})))
    out.append(("clone-depth4", dict(base, cls="Node", fn="clone_tree", tree=[[p, nm, {}, s] for p, nm, a, s in t5], start=0)))
    out.append(("dict-all-attrs", dict(base, cls="Node", fn="tree_to_dict", tree=t5, start=0, opts={"all_attrs": True})))
    out.append(("iter-unsorted", dict(base, cls="Node", fn="preorder_iter", tree=t5, start=0, opts={"max_depth": 0})))
    out.append(("copy-out", dict(base, cls="Node", fn="copy_nodes_from_tree_to_tree", tree=t5, start=0,
                                 tree2=[[None, "t", {}, 0], [0, "u", {}, 0]], sep2="/",
                                 opts={"from_paths": ["/a/c"], "to_paths": ["/t/u/c"], "sep": "/"})))
    out.append(("diff-second-sep", dict(base, cls="Node", fn="get_tree_diff_second", tree=t5, start=0, sep="/",
                                        tree2=[[None, "a", {}, 0], [0, "c", {}, 0], [0, "x", {}, 0]], sep2="-",
                                        opts={"only_diff": True})))
    # degenerate sizes: a node that is root and leaf at once (with a mutable attribute value), a one-child chain
    one = [[None, "a", {"tags": [1, 2], "meta": {"k": [1]}}, 0]]
    two = [[None, "a", {"tags": [1]}, 0], [0, "b", {"tags": [2]}, 0]]
    for fn_, opts_ in (("node_copy", {}), ("deepcopy", {}), ("clone_tree", {}), ("get_subtree", {}),
                       ("get_subtree", {"max_depth": 1}), ("prune_tree", {"max_depth": 1}),
                       ("tree_to_dict", {"all_attrs": True}), ("tree_to_nested_dict", {"all_attrs": True}),
                       ("preorder_iter", {"max_depth": 0}), ("print_tree", {"all_attrs": True})):
        extra = {"found": 0} if fn_ == "get_subtree" else {"targets": []} if fn_ == "prune_tree" else {}
        out.append((f"single-{fn_}", dict(base, cls="Node", fn=fn_, tree=one, start=0, opts=opts_, expect_ok=True, **extra)))
    out.append(("single-binary-copy", dict(base, cls="BinaryNode", fn="node_copy", tree=[[None, "1", {"tags": [1]}, 0]], start=0,
                                           expect_ok=True)))
    out.append(("single-dag-copy", dict(base, cls="DAGNode", fn="dag_copy", tree=[[[], "a", {"tags": [1]}, 0]], start=0,
                                        expect_ok=True)))
    out.append(("pair-leaf-copy", dict(base, cls="Node", fn="node_copy", tree=two, start=1, expect_ok=True)))
    out.append(("pair-leaf-subtree", dict(base, cls="Node", fn="get_subtree", tree=two, start=1, found=1, opts={}, expect_ok=True)))
    dg = [[[], "a", {"tags": [1]}, 0], [[], "b", {}, 0], [[0, 1], "c", {"age": 3}, 0], [[2, 0], "d", {}, 0]]
    out.append(("K4-shallow-dag", dict(base, cls="DAGNode", fn="dag_shallow_copy", tree=dg, start=2)))
    out.append(("dag-copy-inner", dict(base, cls="DAGNode", fn="dag_copy", tree=dg, start=2)))
    out.append(("dag-to-dict", dict(base, cls="DAGNode", fn="dag_to_dict", tree=dg, start=0, opts={"all_attrs": True})))
    out.append(("copy-nodes", dict(base, cls="Node", fn="copy_nodes", tree=t5, start=0, sub=[1, 2, 3, 4],
                                   opts={"from_paths": ["/a/c"], "to_paths": ["/a/b/c"], "sep": "/"})))
    return out


def generate(prop, rng, tier):
    count = {"quick": 1200, "thorough": 16000, "search": 3000}[tier]
    fns = list(ALL_FNS)
    # tree-returning and copying functions get twice the share of the pure readers
    weights = [2.5 if f in TREEFN or f in TREEFN2 or f in DAG_COPY else 1.5 if f in EXPORT or f in DAG_EXPORT else 1.0
               for f in fns]
    for i in range(count):
        fn = fns[i % len(fns)] if i < 3 * len(fns) else rng.choices(fns, weights)[0]
        c = gen_case(rng, fn=fn)
        yield f"{c['fn']}/{c['cls']}", c


# ---------------------------------------------------------------------------------------------
# shrinking, evidence


def _drop_leaf(case, key, j):
    spec = case[key]
    if j == 0 or any(s[0] == j for s in spec):
        return None
    new = []
    for i, (p, nm, at, sl) in enumerate(spec):
        if i == j:
            continue
        new.append([None if p is None else (p - 1 if p > j else p), nm, at, sl])
    return new


def shrink_candidates(prop, case):
    spec = case["tree"]
    fixed = {case.get("start", 0), case.get("found", 0)} | set(case.get("targets", []))
    if case["cls"] == "DAGNode" or case["fn"] == "copy_nodes":
        pass
    elif not case.get("tree2") or case["fn"].startswith("get_tree_diff"):
        for j in range(len(spec) - 1, 0, -1):
            if j in fixed or case["fn"] in ("copy_nodes_from_tree_to_tree", "copy_and_replace_nodes_from_tree_to_tree"):
                continue
            new = _drop_leaf(case, "tree", j)
            if new is None:
                continue
            c = json.loads(json.dumps(case))
            c["tree"] = new
            sh = lambda i: i - 1 if i > j else i
            c["start"] = sh(case.get("start", 0))
            if "found" in case:
                c["found"] = sh(case["found"])
            if "targets" in case:
                c["targets"] = [sh(t) for t in case["targets"]]
            yield c
    for i, (p, nm, at, sl) in enumerate(spec):
        for k in list(at):
            c = json.loads(json.dumps(case))
            del c["tree"][i][2][k]
            yield c
    for k in list(case["opts"]):
        if k in ("from_paths", "to_paths", "sep", "cond", "attr_name", "attr_value", "name", "path", "node_name_or_path",
                 "prune_path"):
            continue
        c = json.loads(json.dumps(case))
        del c["opts"][k]
        if c["fn"] == "prune_tree" and not c["opts"].get("max_depth") and not c.get("targets"):
            continue
        yield c


def size(case):
    return (10 * len(case["tree"]) + 10 * len(case.get("tree2") or []) + sum(len(s[2]) for s in case["tree"])
            + len(case["opts"]))


def nontrivial(prop, case, obs):
    return obs["n"] >= 3 and obs["code"] == 0


def sample(prop, case, obs):
    return {"fn": case["fn"], "class": case["cls"], "tree": case["tree"], "start": case["start"], "opts": case["opts"],
            "exception_code": obs["code"], "clauses": obs.get("clauses"), "sep_overwritten": obs.get("sep_changed")}


def rule(prop):
    return ("57 read-only / copying API calls (renderers incl. node_name_or_path/max_depth/style/attr options, iterators, search, "
            "exporters, copy/deepcopy/copy.copy, clone_tree, get_subtree, prune_tree, get_tree_diff on either argument, "
            "copy_*_from_tree_to_tree on the source, copy_nodes on the copied subtree; DAGNode: copy/deepcopy/copy.copy, dag_iterator, "
            "dag_to_list/dict/dataframe/dot, ancestors/descendants/siblings/go_to) x random option combinations x random start node "
            "on random Node/BinaryNode trees (1-9 nodes: 10% single node that is root and leaf, 6% two nodes; shapes wide/deep/mixed/path/star, name pools distinct/repeated/affix/special) "
            "and random DAGs (1-8 nodes, same share of one- and two-node DAGs, up to 3 parents), scalar and mutable list/dict attribute values; signature before/after, "
            "identity sets, result tree / DAG, then mutation batches on each side; multi-pair tree-to-tree copies (nested from-nodes, "
            "same node twice) with the copy at every destination compared to its source subtree; tree_to_dot / dag_to_dot on a single "
            "tree and on a list, with style dicts stored on the nodes and defaults set; generators also inspected while suspended "
            "after 0-2 items; user subclasses of Node (plain 12%, __eq__/__hash__ by name 8%, falsy leaves via __len__ 8% - the last "
            "only for functions that do not test nodes for truth); falsy attribute values (0, '', False, [], {}); tuples holding "
            "lists / dicts (mutated in place at every depth), lists of dicts, dicts of lists; attribute names that collide with "
            "library names (depth, path, n, names, name_en, shift, x, y, style, label); the two trees of tree-to-tree calls have "
            "different separators in half of the cases; calls "
            "that are valid by construction must return; non-trivial = >= 3 nodes and the call returned normally; distinct by "
            "canonical JSON hash")


def explain(prop, case, obs, flags):
    if isinstance(obs, dict) and "_harness_error" in obs:
        return "the implementation could not be observed on this case: " + obs["_harness_error"]
    cl = obs.get("clauses", {})
    bad = sorted(k for k, v in cl.items() if v is False)
    if flags & 2:
        return (f"{case['fn']} on a {case['cls']} tree: the C07 predicate is false on the implementation's observation; "
                f"failing clause(s): {', '.join(bad)} (unchanged_* = input signature before/after the call; fresh_* = identity "
                f"sets of input and result intersect; equal_part = result is not the corresponding part of the input; "
                f"indep_* = a later change of one side showed on the other)")
    return (f"{case['fn']}: the effect-skeleton model and the implementation disagree (python-side failing clauses: {bad}); "
            "the property predicate still holds on the implementation's output")


def trusted_base(prop):
    return COMMON_TB + [
        "C07 is partial by nature: that CPython's copy.deepcopy allocates fresh objects and that the pure readers contain "
        "no write is not derivable from the heap model; the model assumes it (effect skeletons) and this run observes it",
        "python-side observation: object identity via id() on objects kept alive for the whole case; attribute values are "
        "compared through a canonical rendering interned to small integers",
    ]


def partial_clauses(prop):
    return [
        "C07 (all clauses): proved for the effect skeletons of Heap/Effects.v; that each API function performs exactly its "
        "skeleton's writes (deepcopy allocates, readers do not write) is checked at run time, not proved.  Tightened by "
        "refinement through Heap/Abs.v: copy / deepcopy (C07_copy_WF, C07_copy_refines), get_subtree incl. max_depth "
        "(C07_get_subtree_refines, C07_get_subtree_agrees against Algo/Helper.v), prune_tree by depth "
        "(C07_prune_refines_depth, C07_depth_cut_refines), tree_to_dict (C07_export_refines against Algo/Export.v) and the "
        "write set of shift_nodes for one pair (C07_shift_nodes_writes) compute, on well-formed heaps, the same rose trees as "
        "the algorithm models.  NOT refined: clone_tree (recursive allocation), prune_tree by prune paths (position/id "
        "correspondence of filter_tree), get_tree_diff, the copy_nodes option variants, the other exporters, BinaryNode slots",
        "sep and path_name of every input node are part of the signature; get_tree_diff overwrites other_tree.sep "
        "(helper.py:336): known finding K7-C07, matched only when the input is other_tree, the separators differ and nothing "
        "but sep / path_name changed",
        "result_equal_part for prune_tree / get_subtree(max_depth) / get_tree_diff: C07 checks 'is an order-preserving part of "
        "the input' (resp. only freshness for the diff tree); which part exactly is C14 / C15",
        "copy_nodes at run time: plain / overriding / delete_children / with_full_path only (merge_children, merge_leaves are "
        "covered by the skeleton theorem C07_copy_nodes_from_tree_to_tree_input_unchanged and by C08's correspondence)",
        "DAGNode: the DAG skeleton carries links and names only (attribute values of DAG copies are checked at run time, not "
        "modelled); DNew (allocation) is not an operation of C07_dag_independence; DAGNode.go_to stores its work list in the "
        "private field _DAGNode__path of the start node (not a public attribute, not raised)",
        "not exercised: tree_to_pillow / tree_to_pillow_graph (need a font download), plot / reingold_tilford (write x, y into "
        "the input by design, C19), the workflows",
        "accepted blind spots of the correspondence: (a) the CONTENT of what readers / exporters / get_tree_diff return is not "
        "compared (C04, C06, C09, C15, C17, C18) - only aliasing with, and independence from, the input; iterators / search: "
        "only 'returns nodes of the input'; (b) a call that raises is only required to leave the input unchanged, except for the "
        "functions / cases that are valid by construction (MUST_RETURN, multi-pair copies), which must return; (c) private "
        "non-link fields (_sep, _DAGNode__path, any other underscore field) are outside the signature; an attribute re-bound to "
        "an equal value is not a change; (d) BaseNode without names and argument container types (tuple / generator for "
        "attr_list, from_paths) are not varied, arguments other than the tree are not re-inspected after the call; (e) a "
        "mutate-and-restore inside a call is only visible at the points where the harness looks (after the call, and while a "
        "generator is suspended), not inside filter / stop callbacks; (f) copy_nodes / copy_and_replace with several pairs "
        "whose DESTINATIONS interfere, merge_children / merge_leaves destinations: only 'source unchanged' and freshness; "
        "(g) one mutation batch per side, no second call on the same tree; (h) user subclasses whose leaves are falsy "
        "(__len__ = number of children) are not generated for clone_tree, get_subtree, prune_tree, the print / yield family, "
        "tree_to_mermaid and the copy_nodes* functions: the unchanged library tests nodes for truth there (`if _child:`, "
        "`if not tree:`) and drops leaves or raises 'not found' (reported to the coordinator as a possible finding); "
        "(j) sep / path_name of the RESULT: required equal to the input's for copy / deepcopy / prune_tree / get_subtree on "
        "the root; for results rooted at a copy of an inner node and for clone_tree the unchanged behaviour (the new root "
        "falls back to its own separator '/', clone_tree does not carry a non-default separator over) is recorded and "
        "compared as agreement only; not observed for shallow copies, copy_nodes*, get_tree_diff, DAGs; "
        "(i) user subclasses with value semantics (__eq__/__hash__ by name) are generated only for one-tree functions and "
        "with names pairwise distinct over the whole tree (DESIGN section 8): with a child named like an ancestor the "
        "unchanged prune_tree keeps a child it should cut, because it tests membership in SETS of nodes - witness: "
        "EqNode tree a -> (a, c13), prune_tree(root, ['/a/c13']) returns both children",
    ]


def assumptions(prop):
    return ["copy.deepcopy allocates a fresh object for every node and every mutable attribute value reachable from the "
            "argument (including the parent chain) and writes nothing into the original (CPython runtime; observed, not proved)"]
