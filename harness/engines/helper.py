"""Engine `helper`: prune_tree / get_subtree of bigtree/tree/helper.py against Algo/Helper.v (C14).

A case is a tree (nested dicts, root first), the tree's separator and one call:
  {"fn": "prune", "paths": str | [str], "exact": bool, "psep": str, "max_depth": int}
  {"fn": "subtree", "path": str, "max_depth": int}
The observation is the pre-order list [depth, name, sorted attrs] of the returned tree (read through
.children / .depth / vars(), not through bigtree's iterators) or the exception class code."""
import copy
import json

from ..core import cbool, clist, cnat, copt, cpair, cstr, cZ
from ._base import *  # noqa
from ._base import exn_code, COMMON_TB

SERVES = ["C14"]
COQ_TARGETS = ["theories/Corr/HelperCorr.vo"]
CASES_PER_FILE = 200


def coq_header(prop):
    return "From BT Require Import Base.Prelude Base.Str Base.Rose Algo.Helper Spec.PC14 Corr.HelperCorr."


def coq_case_type(prop):
    return "hcase"


def coq_check(prop):
    return "check_C14"


# ---------------------------------------------------------------------------------------------
# implementation side


def _build(tree, sep):
    from bigtree.node.node import Node

    def rec(d, parent):
        if parent is None:
            n = Node(d["n"], sep=sep, **d["a"])
        else:
            n = Node(d["n"], parent=parent, **d["a"])
        for k in d["k"]:
            rec(k, n)
        return n

    return rec(tree, None)


def _attrs(node):
    out = []
    for k, v in vars(node).items():
        if k.startswith("_") or k == "name":
            continue
        out.append([k, v])
    out.sort(key=lambda kv: kv[0])
    return out


def _observe(node):
    out = []

    def rec(n):
        out.append([int(n.depth), n.name, _attrs(n)])
        for c in n.children:
            rec(c)

    rec(node)
    return out


def run_impl(prop, case):
    from bigtree.tree.helper import get_subtree, prune_tree

    root = _build(case["tree"], case["sep"])
    before = _observe(root)
    call = case["call"]
    try:
        if call["fn"] == "prune":
            paths = call["paths"]
            res = prune_tree(root, copy.deepcopy(paths), exact=call["exact"], sep=call["psep"],
                             max_depth=call["max_depth"])
        else:
            res = get_subtree(root, call["path"], call["max_depth"])
    except Exception as e:  # noqa
        return {"err": exn_code(e)}
    if res is None or not hasattr(res, "children"):
        return {"err": 13}
    return {"tree": _observe(res), "source_same": _observe(root) == before}


# ---------------------------------------------------------------------------------------------
# Coq literals


def _cval(v):
    if v is None:
        return "VNone"
    if isinstance(v, bool):
        return f"VBool {cbool(v)}"
    if isinstance(v, int):
        return f"VInt {cZ(v)}"
    if isinstance(v, str):
        return f"VStr {cstr(v)}"
    raise TypeError(f"attribute value not encodable: {v!r}")


def _cattrs(items):
    return clist(cpair(cstr(k), _cval(v)) for k, v in items)


def _ctree(d, counter):
    i = counter[0]
    counter[0] += 1
    kids = [_ctree(k, counter) for k in d["k"]]
    return f"T (Some {i}) {cstr(d['n'])} {_cattrs(sorted(d['a'].items()))} {clist(kids)}"


def _ccall(call):
    if call["fn"] == "prune":
        p = call["paths"]
        pp = f"PStr {cstr(p)}" if isinstance(p, str) else f"PList {clist(cstr(s) for s in p)}"
        return f"CPrune ({pp}) {cbool(call['exact'])} {cstr(call['psep'])} {cnat(call['max_depth'])}"
    return f"CSubtree {cstr(call['path'])} {cnat(call['max_depth'])}"


def emit(prop, case, obs):
    if "err" in obs:
        o = f"OErr {int(obs['err'])}"
    else:
        o = "OTree " + clist(f"({int(d)}, {cstr(n)}, {_cattrs(a)})" for d, n, a in obs["tree"])
    return f"HC ({cstr(case['sep'])}) ({_ctree(case['tree'], [0])}) ({_ccall(case['call'])}) ({o})"


# ---------------------------------------------------------------------------------------------
# generation

SEPS = ["/", "\\", "-", ".", "|"]
NAME_POOLS = {
    "distinct": ["a", "b", "c", "d", "e", "f", "g", "h", "i", "j", "k", "l", "m", "n", "o"],
    "repeated": ["a", "b", "c", "d"],
    "affix": ["a", "xa", "b", "ab", "bc", "abc", "xab", "c", "ca", "xxa", "bb"],
    "special": ["a b", "(", ")", "+", "a'", "0", "10", "a1", "é", "*", "a,b", "[x]", "#", "_", ":", "a\"", " "],
}
ATTR_KEYS = ["age", "x", "tag"]
SHAPES = ["wide", "deep", "mixed", "path", "star", "bushy"]


def _node(name):
    return {"n": name, "a": {}, "k": []}


def _walk(tree):
    """pre-order list of (node dict, names from the root, list of ancestors' dicts)"""
    out = []

    def rec(d, names, anc):
        names = names + [d["n"]]
        out.append((d, names, anc))
        for k in d["k"]:
            rec(k, names, anc + [d])

    rec(tree, [], [])
    return out


def _height(d):
    return 1 + max((_height(k) for k in d["k"]), default=0)


def gen_shape(rng, shape, n):
    """returns the parent index of nodes 1..n-1 (nodes are attached in index order)"""
    par = [None]
    depth = [1]
    fan = [0]
    for i in range(1, n):
        if shape == "path":
            p = i - 1
        elif shape == "star":
            p = 0 if (fan[0] < 6 or rng.random() < 0.5) else rng.randrange(i)
        elif shape == "wide":
            cands = [j for j in range(i) if depth[j] <= 2 and fan[j] < 6]
            p = rng.choice(cands) if cands and rng.random() < 0.85 else rng.randrange(i)
        elif shape == "deep":
            deepest = max(range(i), key=lambda j: (depth[j], j))
            p = deepest if (depth[deepest] < 8 and rng.random() < 0.7) else rng.randrange(i)
        elif shape == "bushy":
            # a spine down to depth 3-4, then several siblings at depth >= 4
            if i <= 3:
                p = i - 1
            else:
                cands = [j for j in range(i) if depth[j] >= 3 and fan[j] < 4]
                p = rng.choice(cands) if cands and rng.random() < 0.8 else rng.randrange(i)
        else:
            p = rng.randrange(i)
        if depth[p] >= 8:
            p = 0
        par.append(p)
        depth.append(depth[p] + 1)
        fan.append(0)
        fan[p] += 1
    return par


def gen_tree(rng, shape, pool_name, n, bad_chars):
    par = gen_shape(rng, shape, n)
    pool = [s for s in NAME_POOLS[pool_name] if not any(ch in s for ch in bad_chars)]
    nodes = []
    for i in range(n):
        sib = [] if par[i] is None else [k["n"] for k in nodes[par[i]]["k"]]
        name = None
        for _ in range(12):
            cand = rng.choice(pool)
            if cand not in sib:
                name = cand
                break
        if name is None:
            name = "n%d" % i
        nd = _node(name)
        r = rng.random()
        if r < 0.35:
            nd["a"][rng.choice(ATTR_KEYS)] = rng.choice([0, 1, 7, -3, "v", "", True, False, None])
            if r < 0.08:
                nd["a"]["y"] = rng.randint(0, 99)
        nodes.append(nd)
        if par[i] is not None:
            nodes[par[i]]["k"].append(nd)
    return nodes[0]


def _path_name(sep, names):
    return sep + sep.join(names)


def _count_hits(walk, tsep, path_in_tsep):
    pn = path_in_tsep.rstrip(tsep)
    return sum(1 for _, names, _ in walk if _path_name(tsep, names).endswith(pn))


def _renderings(names, psep):
    """all ways to write the node whose names-from-root are `names` with separator psep"""
    out = []
    full = psep.join(names)
    out.append(("full", full))
    out.append(("full", psep + full))
    for j in range(2, len(names)):
        out.append(("partial", psep.join(names[-j:])))
    if len(names) >= 2:
        out.append(("partial", psep + psep.join(names[-2:])))
    out.append(("name", names[-1]))
    return out


def _render(rng, walk, idx, tsep, psep, want_unique=True):
    names = walk[idx][1]
    cands = _renderings(names, psep)
    kind_pref = rng.choice(["full", "partial", "name", "any"])
    rng.shuffle(cands)
    cands.sort(key=lambda kc: 0 if (kind_pref == "any" or kc[0] == kind_pref) else 1)
    chosen = cands[0][1]
    if want_unique:
        for _, c in cands:
            if _count_hits(walk, tsep, c.replace(psep, tsep)) == 1:
                chosen = c
                break
    if rng.random() < 0.12:
        chosen = chosen + psep
    return chosen


def _missing_path(rng, walk, psep):
    r = rng.random()
    if r < 0.4:
        return rng.choice(["zz", "q", "ax"])
    a = rng.choice(walk)[1]
    b = rng.choice(walk)[1]
    if r < 0.7:
        return psep.join(a + ["zz"])
    return psep.join([b[-1], a[0], "zz"])


def _pick_targets(rng, walk, k, nested_ok):
    chosen = []
    tries = 0
    # sometimes: siblings under one parent (with further siblings around)
    if k >= 2 and rng.random() < 0.35:
        parents = [i for i, (d, _, _) in enumerate(walk) if len(d["k"]) >= 2]
        if parents:
            pd = walk[rng.choice(parents)][0]
            kids = [i for i, (d, _, _) in enumerate(walk) if any(d is x for x in pd["k"])]
            rng.shuffle(kids)
            chosen = kids[:k]
    while len(chosen) < k and tries < 30:
        tries += 1
        i = rng.randrange(len(walk))
        if i in chosen:
            continue
        if not nested_ok:
            di, _, anci = walk[i]
            clash = False
            for j in chosen:
                dj, _, ancj = walk[j]
                if any(dj is x for x in anci) or any(di is x for x in ancj):
                    clash = True
                    break
            if clash:
                continue
        chosen.append(i)
    return chosen


def gen_case(rng, tier):
    shape = rng.choice(SHAPES)
    pool_name = rng.choice(["distinct", "repeated", "affix", "affix", "special"])
    n = rng.randint(2, 13) if rng.random() < 0.9 else rng.randint(1, 3)
    tsep = rng.choice(SEPS)
    psep = tsep if rng.random() < 0.6 else rng.choice(SEPS)
    tree = gen_tree(rng, shape, pool_name, n, set(tsep) | set(psep))
    walk = _walk(tree)
    h = _height(tree)
    fn = "prune" if rng.random() < 0.72 else "subtree"
    if fn == "prune":
        r = rng.random()
        k = 0 if r < 0.07 else 1 if r < 0.45 else 2 if r < 0.85 else 3
        nested_ok = rng.random() < 0.03
        idxs = _pick_targets(rng, walk, k, nested_ok)
        uniq = rng.random() < 0.8
        paths = [_render(rng, walk, i, tsep, psep, uniq) for i in idxs]
        kind = "ok"
        r = rng.random()
        if r < 0.12:
            paths.insert(rng.randint(0, len(paths)), _missing_path(rng, walk, psep))
            kind = "missing"
        elif r < 0.14 and paths:
            paths.insert(rng.randint(0, len(paths)), "")
            kind = "emptypath"
        arg = paths
        if len(paths) == 1 and rng.random() < 0.5:
            arg = paths[0]
        elif len(paths) == 0 and rng.random() < 0.5:
            arg = ""
        r = rng.random()
        md = 0 if r < 0.5 else rng.randint(1, h + 1)
        if len(paths) == 0 and rng.random() < 0.8:
            md = rng.randint(1, h + 1)
        call = {"fn": "prune", "paths": arg, "exact": rng.random() < 0.5, "psep": psep, "max_depth": md}
        label = f"prune{min(len(paths), 3)}/{shape}/{pool_name}"
    else:
        r = rng.random()
        if r < 0.1:
            path = ""
        elif r < 0.8:
            path = _render(rng, walk, rng.randrange(len(walk)), tsep, tsep, True)
        elif r < 0.9:
            path = _missing_path(rng, walk, tsep)
        else:
            path = _render(rng, walk, rng.randrange(len(walk)), tsep, tsep, False)
        md = 0 if rng.random() < 0.4 else rng.randint(1, h + 1)
        call = {"fn": "subtree", "path": path, "max_depth": md}
        label = f"subtree/{shape}/{pool_name}"
    return label, {"sep": tsep, "tree": tree, "call": call, "stratum": label}


def generate(prop, rng, tier):
    count = {"quick": 2400, "thorough": 40000, "search": 7000}[tier]
    for _ in range(count):
        yield gen_case(rng, tier)
    if tier == "thorough":
        yield from _exhaustive()


def _shapes(n):
    """all ordered trees with n nodes as nested lists of children"""
    if n == 1:
        return [[]]
    out = []

    def forests(m):
        # ordered forests with m nodes in total
        if m == 0:
            return [[]]
        res = []
        for first in range(1, m + 1):
            for t in _shapes(first):
                for rest in forests(m - first):
                    res.append([t] + rest)
        return res

    return forests(n - 1)


def _exhaustive():
    """small scope: every ordered tree with <= 5 nodes (distinct names), every single target and every
    non-nested pair of targets (full paths), exact on/off, every depth limit; every get_subtree"""
    names = ["a", "b", "c", "d", "e"]
    for n in range(1, 6):
        for shp in _shapes(n):
            cnt = [0]

            def mk(kids):
                d = _node(names[cnt[0]])
                cnt[0] += 1
                d["k"] = [mk(k) for k in kids]
                return d

            tree = mk(shp)
            walk = _walk(tree)
            h = _height(tree)
            fulls = ["/".join(nm) for _, nm, _ in walk]
            sets = [[p] for p in fulls]
            for i in range(len(walk)):
                for j in range(i + 1, len(walk)):
                    di, _, ai = walk[i]
                    dj, _, aj = walk[j]
                    if any(di is x for x in aj) or any(dj is x for x in ai):
                        continue
                    sets.append([fulls[i], fulls[j]])
            for ps in sets:
                for exact in (False, True):
                    for md in range(0, h + 1):
                        yield "exhaustive/prune", {"sep": "/", "tree": tree, "stratum": "exhaustive",
                                                   "call": {"fn": "prune", "paths": list(ps), "exact": exact,
                                                            "psep": "/", "max_depth": md}}
            for p in fulls:
                for md in range(0, h + 1):
                    yield "exhaustive/subtree", {"sep": "/", "tree": tree, "stratum": "exhaustive",
                                                 "call": {"fn": "subtree", "path": p, "max_depth": md}}


def _t(name, kids=(), **attrs):
    return {"n": name, "a": dict(attrs), "k": list(kids)}


def corpus(prop):
    doc = _t("a", [_t("b", [_t("c"), _t("d")]), _t("e")])
    fixture = _t("a", [_t("b", [_t("d", age=40), _t("e", [_t("g"), _t("h")], age=35)], age=65),
                       _t("c", [_t("f", age=38)], age=60)], age=90)
    deep = _t("r", [_t("p", [_t("q", [_t("s", [_t("u"), _t("v"), _t("w")]), _t("t")])]), _t("o")])
    affix = _t("r", [_t("xa", [_t("c")]), _t("d"), _t("a", [_t("b"), _t("ab")])])
    out = []

    def prune(label, tree, paths, exact=False, psep="/", md=0, sep="/"):
        out.append((label, {"sep": sep, "tree": tree, "stratum": "corpus",
                            "call": {"fn": "prune", "paths": paths, "exact": exact, "psep": psep, "max_depth": md}}))

    def sub(label, tree, path, md=0, sep="/"):
        out.append((label, {"sep": sep, "tree": tree, "stratum": "corpus",
                            "call": {"fn": "subtree", "path": path, "max_depth": md}}))

    prune("doc", doc, "a/b")
    prune("doc", doc, "a/b", exact=True)
    prune("doc", doc, ["a/b/d", "a/e"])
    prune("doc", doc, "", md=2)
    prune("args", doc, "")
    prune("args", doc, [])
    prune("two-exact", fixture, ["a/b/e", "a/c"], exact=True)
    prune("two-siblings", fixture, ["b/d", "b/e"], exact=False)
    prune("missing-second", fixture, ["a/b", "a/zz"])
    prune("depth", fixture, ["a/b"], md=3)
    prune("deep-right", deep, ["q/s"])
    prune("affix-name", affix, "a")              # `a` is also a trailing part of /r/xa: SearchError
    prune("affix-name", affix, "/a")
    prune("affix-name", affix, ["r/xa", "ab"], exact=True)
    prune("sep", fixture, ["a.b.e", "c"], psep=".")
    sub("doc", doc, "b")
    sub("depth", fixture, "b", md=2)
    sub("depth", deep, "q", md=2)
    sub("missing", doc, "zz")
    sub("root", fixture, "", md=2)
    # K3 (known finding): with the multi-character separator "->" find_path strips the character
    # *set* {'-','>'} from the right of the prune path, so "r->a-" is looked up as "r->a"
    k3 = _t("r", [_t("a", [_t("c")], x=1), _t("a-", [_t("d")], y=2)])
    prune("K3-multichar-sep", k3, "r->a-", psep="->", sep="->")
    return out


def matches_finding(prop, entry, case, obs, flags):
    if entry.get("id") != "K3-C14":
        return False
    multichar = len(case["sep"]) > 1
    # the documented behaviour: the model (character-set rstrip) agrees with the implementation and the
    # property predicate (whole-separator stripping) is false on that output
    return multichar and flags == 2


# ---------------------------------------------------------------------------------------------
# shrinking, evidence


def _count(d):
    return 1 + sum(_count(k) for k in d["k"])


def size(case):
    c = case["call"]
    p = c.get("paths", c.get("path"))
    np = len(p) if isinstance(p, list) else 1
    return 10 * _count(case["tree"]) + 5 * np + len(json.dumps(c)) + sum(len(d["a"]) for d, _, _ in _walk(case["tree"]))


def shrink_candidates(prop, case):
    tree = case["tree"]
    walk = _walk(tree)
    # remove one leaf / one whole subtree
    for idx in range(len(walk) - 1, 0, -1):
        c = copy.deepcopy(case)
        w = _walk(c["tree"])
        d, _, anc = w[idx]
        parent = anc[-1]
        parent["k"] = [k for k in parent["k"] if k is not d]
        yield c
    # splice a node out (its children move up)
    for idx in range(len(walk) - 1, 0, -1):
        c = copy.deepcopy(case)
        w = _walk(c["tree"])
        d, _, anc = w[idx]
        parent = anc[-1]
        if d["k"] and not ({k["n"] for k in d["k"]} & {k["n"] for k in parent["k"] if k is not d}):
            i = [j for j, k in enumerate(parent["k"]) if k is d][0]
            parent["k"][i:i + 1] = d["k"]
            yield c
    call = case["call"]
    if call["fn"] == "prune" and isinstance(call["paths"], list):
        for i in range(len(call["paths"])):
            c = copy.deepcopy(case)
            del c["call"]["paths"][i]
            yield c
    if call["max_depth"]:
        c = copy.deepcopy(case)
        c["call"]["max_depth"] = 0
        yield c
    if call.get("exact"):
        c = copy.deepcopy(case)
        c["call"]["exact"] = False
        yield c
    if any(d["a"] for d, _, _ in walk):
        c = copy.deepcopy(case)
        for d, _, _ in _walk(c["tree"]):
            d["a"] = {}
        yield c


def nontrivial(prop, case, obs):
    n = _count(case["tree"])
    if "tree" in obs:
        return 1 < len(obs["tree"]) < n
    c = case["call"]
    return n >= 3 and c["fn"] == "prune" and isinstance(c["paths"], list) and len(c["paths"]) >= 2


def sample(prop, case, obs):
    return {"sep": case["sep"], "tree": case["tree"], "call": case["call"],
            "returned": obs.get("tree", None), "exception_code": obs.get("err", None)}


def rule(prop):
    return ("random trees (1-13 nodes; shapes wide/deep/mixed/path/star/bushy-at-depth>=4; name pools distinct/"
            "repeated-across-branches/affix-related a,xa,b,ab,bc/special characters; separators / \\ - . |, prune "
            "separator equal or different) x prune_tree(0-3 non-nested targets written as full/partial/bare-name "
            "paths, leading/trailing separator, missing and empty paths, str or list argument, exact on/off, "
            "max_depth 0..height+1) or get_subtree(path, max_depth); thorough adds all ordered trees <= 5 nodes x "
            "all single/non-nested-pair targets x exact x depth; non-trivial = a returned tree with more than one "
            "and fewer than all nodes, or an exception on a call with >= 2 paths; distinct by canonical JSON hash")


def explain(prop, case, obs, flags):
    from ._base import explain as base
    if isinstance(obs, dict) and "_harness_error" not in obs and flags & 2:
        return ("prop_C14 is false on the implementation's output: the returned pre-order (depth, name, attrs) "
                "list is not `filter keep` of the input tree's (or not the addressed subtree), or a path that "
                "addresses no node was not answered by an exception")
    return base(prop, case, obs, flags)


def trusted_base(prop):
    return COMMON_TB + [
        "observation of the returned tree through Node.children / Node.depth / vars(node) (user attributes = "
        "instance attributes not starting with '_' except name)",
    ]


def partial_clauses(prop):
    return [
        "start node: theorems and correspondence cover calls on a root (the property's guard); prune_tree / "
        "get_subtree called on an inner node are not modelled",
        "nested prune targets (one target an ancestor of another) are outside the property's quantifier: the "
        "check skips them (F_SKIP) and C14_prune_kept carries the hypothesis `nested _ = false`",
        "theorems that speak about which node a path addresses (C14_model_satisfies_prop, C14_prune_kept, "
        "C14_missing_path_error, C14_subtree_spec) are for a one-character tree separator; for multi-character "
        "separators the faithful model violates the predicate (C14_multichar_sep_refuted = known finding K3-C14); "
        "C14_prune_kept_any_sep, C14_prune_depth, C14_prune_attrs_order, C14_detach_rule hold for all separators",
        "a prune path that addresses several nodes is answered by SearchError in model and code; the predicate "
        "makes no claim there (documented precondition: path names unique); model and code are still compared",
        "Node trees only (BinaryNode trees, which prune_tree also accepts, are not generated); max_depth is a "
        "natural number (negative ints behave as 'no limit' in the code and are not generated)",
    ]


def assumptions(prop):
    return [
        "'a path addresses a node' = after removing trailing separators the path is a trailing part of the "
        "node's path_name as a *string* (find_path's documented meaning, DESIGN.md C09); hence the bare name "
        "'a' also addresses a node named 'xa'",
    ]
