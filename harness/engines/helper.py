"""Engine `helper`: prune_tree / get_subtree of bigtree/tree/helper.py against Algo/Helper.v (C14).

A case is a tree (nested dicts {"n": name, "a": attrs, "k": [child | None]}, root first; a BinaryNode
tree when case["binary"], then every node has exactly two child slots, None = empty slot), the tree's
separator, the start node (case["start"] = child indices from the root; [] = the root) and one call:
  {"fn": "prune", "paths": str | [str], "exact": bool, "psep": str, "max_depth": int}
  {"fn": "subtree", "path": str, "max_depth": int}
The observation is the pre-order list [depth, name, sorted attrs] of the returned node's subtree with
depths counted structurally from the returned node (an empty BinaryNode slot is [depth, "", []]),
read through .children / vars(), not through bigtree's iterators; the returned node's own .depth; or
the exception class code.  For "subtree" calls the same (node_name_or_path, max_depth) is also sent
through print_tree and the printed lines are recorded as [depth, name]."""
import contextlib
import copy
import io
import json
import re

from ..core import cbool, clist, cnat, copt, cpair, cstr, cZ
from ._base import *  # noqa
from ._base import exn_code, COMMON_TB

SERVES = ["C14"]
COQ_TARGETS = ["theories/Corr/HelperCorr.vo"]
CASES_PER_FILE = 200


def coq_header(prop):
    return "From BT Require Import Base.Prelude Base.Str Base.Rose Algo.Helper Spec.PC14 Corr.HelperCorr."


def coq_case_type(prop):
    return "hcase"


def coq_check(prop):
    return "check_C14"


# ---------------------------------------------------------------------------------------------
# implementation side


_SUB = {}


def _node_class(binary, sub):
    if binary:
        from bigtree.node.binarynode import BinaryNode as Base
    else:
        from bigtree.node.node import Node as Base
    if not sub:
        return Base
    key = ("bin" if binary else "node")
    if key not in _SUB:
        _SUB[key] = type("My" + Base.__name__, (Base,), {"__module__": __name__})
    return _SUB[key]


def _val(v):
    """attribute value of the case -> Python object (lists are fresh mutable objects)"""
    return list(v) if isinstance(v, list) else v


def _build(case):
    """returns (root, {id(dict): node object}); node d gets its own `_sep` d["s"] (the root: the tree's
    separator), all other attributes of d["a"] (keys starting with '_' included)"""
    tree, sep, binary = case["tree"], case["sep"], bool(case.get("binary"))
    cls = _node_class(binary, case.get("cls") == "sub")
    objs = {}
    if binary:
        def recb(d):
            n = cls(d["n"], **{k: _val(v) for k, v in d["a"].items()})
            objs[id(d)] = n
            n.children = [None if k is None else recb(k) for k in d["k"]]
            if d.get("s") is not None:
                n._sep = d["s"]
            return n

        root = recb(tree)
        root.sep = sep
        return root, objs

    def rec(d, parent):
        kw = {k: _val(v) for k, v in d["a"].items()}
        own = sep if parent is None else d.get("s")
        if own is not None:
            kw["sep"] = own
        if parent is not None:
            kw["parent"] = parent
        n = cls(d["n"], **kw)
        objs[id(d)] = n
        for k in d["k"]:
            rec(k, n)
        return n

    return rec(tree, None), objs


_LINK = re.compile(r"^_\w+__(parent|children)$")


def _canon(v):
    if isinstance(v, list):
        return "list:" + json.dumps(v)
    return v


def _attrs(node, binary):
    """every instance attribute except the name, the link fields (name-mangled __parent/__children) and
    BinaryNode.val (derived from the name); `_sep` and user attributes starting with '_' are included"""
    out = []
    for k, v in vars(node).items():
        if k == "name" or _LINK.match(k) or (binary and k == "val"):
            continue
        out.append([k, _canon(v)])
    out.sort(key=lambda kv: kv[0])
    return out


def _nodes(node):
    out = []

    def rec(n):
        if n is None:
            return
        out.append(n)
        for c in n.children:
            rec(c)

    rec(node)
    return out


def _observe(node, binary):
    out = []

    def rec(n, depth):
        if n is None:
            out.append([depth, "", []])
            return
        out.append([depth, n.name, _attrs(n, binary)])
        for c in n.children:
            rec(c, depth + 1)

    rec(node, 1)
    return out


_LINE = re.compile(r"^((?:\|   |    )*)(\|-- |`-- )(.*)$", re.S)


def _printed(start, path, md):
    from bigtree.tree.export import print_tree

    buf = io.StringIO()
    try:
        with contextlib.redirect_stdout(buf):
            print_tree(start, node_name_or_path=path, max_depth=md, style="ansi")
    except Exception as e:  # noqa
        return {"err": exn_code(e)}
    lines = buf.getvalue().split("\n")
    if lines and lines[-1] == "":
        lines.pop()
    out = []
    for i, ln in enumerate(lines):
        m = _LINE.match(ln)
        if i == 0 or not m:
            out.append([1 if i == 0 else 0, ln])
        else:
            out.append([len(m.group(1)) // 4 + 2, m.group(3)])
    return {"lines": out}


def _hprinted_names(start, path, md):
    """sorted node names shown by hyield_tree (only used when all names are alphanumeric)"""
    from bigtree.tree.export import hyield_tree

    try:
        lines = hyield_tree(start, node_name_or_path=path, max_depth=md, style="ansi")
    except Exception as e:  # noqa
        return {"err": exn_code(e)}
    return {"names": sorted(re.findall(r"[A-Za-z0-9]+", "\n".join(lines)))}


def _start_dict(case):
    d = case["tree"]
    for i in case.get("start", []):
        d = d["k"][i]
    return d


def _call(case, start):
    """performs the call; arguments equal to their default are left out when call["omit"]"""
    from bigtree.tree.helper import get_subtree, prune_tree

    call = case["call"]
    omit = bool(call.get("omit"))
    if call["fn"] == "prune":
        paths = copy.deepcopy(call["paths"])
        if call.get("ptype") == "tuple" and isinstance(paths, list):
            paths = tuple(paths)
        kw = {}
        if not (omit and paths == ""):
            kw["prune_path"] = paths
        if not (omit and not call["exact"]):
            kw["exact"] = call["exact"]
        if not (omit and call["psep"] == "/"):
            kw["sep"] = call["psep"]
        if not (omit and call["max_depth"] == 0):
            kw["max_depth"] = call["max_depth"]
        res = prune_tree(start, **kw)
        return res, paths
    if omit and call["max_depth"] == 0:
        if call["path"] == "":
            return get_subtree(start), None
        return get_subtree(start, call["path"]), None
    return get_subtree(start, call["path"], call["max_depth"]), None


def _snapshot(root, binary):
    return [_observe(root, binary), root.sep]


def _try(case, start, binary):
    try:
        res, passed = _call(case, start)
    except Exception as e:  # noqa
        return None, None, {"err": exn_code(e)}
    if res is None or not hasattr(res, "children"):
        return None, passed, {"err": 13}
    obs = {"tree": _observe(res, binary), "top": int(res.depth)}
    call = case["call"]
    if call["fn"] == "prune" and case.get("start") and not binary:
        obs["whole"] = _observe(res.root, binary)     # the whole copy the returned node is attached to
    return res, passed, obs


def run_impl(prop, case):
    binary = bool(case.get("binary"))
    root, objs = _build(case)
    start = objs[id(_start_dict(case))]
    in_nodes = _nodes(root)
    in_ids = {id(n) for n in in_nodes}
    in_vals = {id(v) for n in in_nodes for k, v in vars(n).items() if isinstance(v, list) and not _LINK.match(k)}
    before = _snapshot(root, binary)
    call = case["call"]
    res, passed, obs = _try(case, start, binary)
    inv = {}
    # the input tree (structure, names, attributes incl. '_'-attributes, every node's _sep, root.sep) and
    # the path argument are unchanged
    inv["source_same"] = _snapshot(root, binary) == before
    if call["fn"] == "prune" and isinstance(call["paths"], list):
        inv["arg_same"] = list(passed) == call["paths"] if passed is not None else True
    # a second identical call gives the same answer
    res2, _, obs2 = _try(case, start, binary)
    inv["repeatable"] = obs2 == obs and _snapshot(root, binary) == before
    if res is not None:
        out_nodes = _nodes(res)
        # new objects, of the class of the input's nodes, with consistent parent/children links
        inv["class_same"] = all(type(n) is type(root) for n in out_nodes)
        inv["links"] = all(c is None or c.parent is n for n in out_nodes for c in n.children)
        inv["fresh_nodes"] = not any(id(n) in in_ids for n in out_nodes) and (res2 is None or res2 is not res)
        inv["fresh_values"] = not any(id(v) in in_vals for n in out_nodes for k, v in vars(n).items()
                                      if isinstance(v, list) and not _LINK.match(k))
    if call["fn"] == "subtree" and "\n" not in "".join(n.name for n in in_nodes):
        obs["print"] = _printed(start, call["path"], call["max_depth"])
        if all(re.fullmatch(r"[A-Za-z0-9]+", n.name) for n in in_nodes):
            h = _hprinted_names(start, call["path"], call["max_depth"])
            p = obs["print"]
            if "err" in p or "err" in h:
                inv["hprint"] = p.get("err") == h.get("err")
            else:
                inv["hprint"] = sorted(nm for _, nm in p["lines"]) == h["names"]
    if res is not None:
        # the result does not depend on the input any more: change the input afterwards
        for n in in_nodes:
            for k, v in vars(n).items():
                if isinstance(v, list) and not _LINK.match(k):
                    v.append("changed")
            n.zz_changed = 1
        inv["independent"] = _observe(res, binary) == obs["tree"]
    obs["inv"] = inv
    return obs


# ---------------------------------------------------------------------------------------------
# Coq literals


def _cval(v):
    if isinstance(v, list):
        v = _canon(v)
    if v is None:
        return "VNone"
    if isinstance(v, bool):
        return f"VBool {cbool(v)}"
    if isinstance(v, int):
        return f"VInt {cZ(v)}"
    if isinstance(v, str):
        return f"VStr {cstr(v)}"
    raise TypeError(f"attribute value not encodable: {v!r}")


def _cattrs(items):
    return clist(cpair(cstr(k), _cval(v)) for k, v in items)


def _ctree(d, counter, sep, is_root):
    if d is None:
        return "HOLE"
    i = counter[0]
    counter[0] += 1
    kids = [_ctree(k, counter, sep, False) for k in d["k"]]
    own = sep if is_root else (d.get("s") if d.get("s") is not None else "/")
    items = sorted(list(d["a"].items()) + [("_sep", own)])
    return f"T (Some {i}) {cstr(d['n'])} {_cattrs(items)} {clist(kids)}"


def _ccall(call):
    if call["fn"] == "prune":
        p = call["paths"]
        pp = f"PStr {cstr(p)}" if isinstance(p, str) else f"PList {clist(cstr(s) for s in p)}"
        return f"CPrune ({pp}) {cbool(call['exact'])} {cstr(call['psep'])} {cnat(call['max_depth'])}"
    return f"CSubtree {cstr(call['path'])} {cnat(call['max_depth'])}"


def _clbls(rows):
    return clist(f"({int(d)}, {cstr(n)}, {_cattrs(a)})" for d, n, a in rows)


def emit(prop, case, obs):
    if "err" in obs:
        o = f"OErr {int(obs['err'])}"
        top = 0
    else:
        o = "OTree " + _clbls(obs["tree"])
        top = int(obs["top"])
    pr = obs.get("print")
    if pr is None:
        p = "None"
    elif "err" in pr:
        p = f"(Some (OErr {int(pr['err'])}))"
    else:
        p = "(Some (OTree " + _clbls([(d, n, []) for d, n in pr["lines"]]) + "))"
    inv = all(bool(v) for v in obs.get("inv", {}).values())
    whole = "None" if "whole" not in obs else "(Some " + _clbls(obs["whole"]) + ")"

    return (f"HC {cbool(case.get('binary'))} ({cstr(case['sep'])}) "
            f"({_ctree(case['tree'], [0], case['sep'], True)}) "
            f"{clist(str(int(i)) for i in case.get('start', []))} ({_ccall(case['call'])}) ({o}) {top} {p} "
            f"{whole} {cbool(inv)}")


# ---------------------------------------------------------------------------------------------
# generation

SEPS = ["/", "\\", "-", ".", "|"]
MSEPS = ["->", "::", "=>", "//", "-|-"]      # multi-character separators
NAME_POOLS = {
    "distinct": ["a", "b", "c", "d", "e", "f", "g", "h", "i", "j", "k", "l", "m", "n", "o"],
    "repeated": ["a", "b", "c", "d"],
    "affix": ["a", "xa", "b", "ab", "bc", "abc", "xab", "c", "ca", "xxa", "bb"],
    "special": ["a b", "(", ")", "+", "a'", "0", "10", "a1", "é", "*", "a,b", "[x]", "#", "_", ":", "a\"", " "],
}
ATTR_KEYS = ["age", "x", "tag"]
SHAPES = ["wide", "deep", "mixed", "path", "star", "bushy"]


def _node(name, binary=False):
    return {"n": name, "a": {}, "k": [None, None] if binary else []}


def _walk(tree, under=None):
    """pre-order list of real nodes as dicts {d, names (from the root), anc (ancestor dicts), pos};
    with `under` (a position) only the nodes of that node's subtree"""
    out = []

    def rec(d, names, anc, pos):
        names = names + [d["n"]]
        if under is None or pos[:len(under)] == list(under):
            out.append({"d": d, "names": names, "anc": anc, "pos": pos})
        for i, k in enumerate(d["k"]):
            if k is not None:
                rec(k, names, anc + [d], pos + [i])

    rec(tree, [], [], [])
    return out


def _height(d):
    return 1 + max((_height(k) for k in d["k"] if k is not None), default=0)


def gen_shape(rng, shape, n):
    """returns the parent index of nodes 1..n-1 (nodes are attached in index order)"""
    par = [None]
    depth = [1]
    fan = [0]
    for i in range(1, n):
        if shape == "path":
            p = i - 1
        elif shape == "star":
            p = 0 if (fan[0] < 6 or rng.random() < 0.5) else rng.randrange(i)
        elif shape == "wide":
            cands = [j for j in range(i) if depth[j] <= 2 and fan[j] < 6]
            p = rng.choice(cands) if cands and rng.random() < 0.85 else rng.randrange(i)
        elif shape == "deep":
            deepest = max(range(i), key=lambda j: (depth[j], j))
            p = deepest if (depth[deepest] < 8 and rng.random() < 0.7) else rng.randrange(i)
        elif shape == "bushy":
            # a spine down to depth 3-4, then several siblings at depth >= 4
            if i <= 3:
                p = i - 1
            else:
                cands = [j for j in range(i) if depth[j] >= 3 and fan[j] < 4]
                p = rng.choice(cands) if cands and rng.random() < 0.8 else rng.randrange(i)
        else:
            p = rng.randrange(i)
        if depth[p] >= 8:
            p = 0
        par.append(p)
        depth.append(depth[p] + 1)
        fan.append(0)
        fan[p] += 1
    return par


def _pick_name(rng, pool, sib, i):
    for _ in range(12):
        cand = rng.choice(pool)
        if cand not in sib:
            return cand
    return "n%d" % i


def _rand_attrs(rng, nd):
    r = rng.random()
    if r < 0.35:
        nd["a"][rng.choice(ATTR_KEYS)] = rng.choice([0, 1, 7, -3, "v", "", True, False, None])
        if r < 0.08:
            nd["a"]["y"] = rng.randint(0, 99)
    r = rng.random()
    if r < 0.08:
        nd["a"]["_hid"] = rng.choice([1, "p", None])          # a private ('_') user attribute
    elif r < 0.16:
        nd["a"]["tags"] = [rng.randint(0, 9)] * rng.randint(0, 2)   # a mutable attribute value
    r = rng.random()
    if r < 0.3:
        nd["s"] = rng.choice(SEPS)                           # the node's own _sep (only the root's counts)


def gen_tree(rng, shape, pool_name, n, name_ok, extra=()):
    par = gen_shape(rng, shape, n)
    pool = [s for s in NAME_POOLS[pool_name] + list(extra) if name_ok(s)]
    nodes = []
    for i in range(n):
        sib = [] if par[i] is None else [k["n"] for k in nodes[par[i]]["k"]]
        nd = _node(_pick_name(rng, pool, sib, i))
        _rand_attrs(rng, nd)
        nodes.append(nd)
        if par[i] is not None:
            nodes[par[i]]["k"].append(nd)
    return nodes[0]


def gen_binary_tree(rng, shape, pool_name, n, name_ok, extra=()):
    """random BinaryNode tree with n real nodes: each new node goes into a free slot; `deep` prefers the
    most recent node, `path` makes a zigzag chain (always one empty slot)"""
    pool = [s for s in NAME_POOLS[pool_name] + ["1", "2", "30"] + list(extra) if name_ok(s)]
    nodes = [_node(_pick_name(rng, pool, [], 0), True)]
    depth = [1]
    _rand_attrs(rng, nodes[0])
    for i in range(1, n):
        free = [j for j in range(i) if None in nodes[j]["k"] and depth[j] < 8]
        if shape in ("deep", "path", "bushy") and rng.random() < (1.0 if shape == "path" else 0.7):
            j = max(free, key=lambda q: (depth[q], q))
        else:
            j = rng.choice(free)
        slots = [s for s in (0, 1) if nodes[j]["k"][s] is None]
        s = rng.choice(slots)
        sib = [k["n"] for k in nodes[j]["k"] if k is not None]
        nd = _node(_pick_name(rng, pool, sib, i), True)
        _rand_attrs(rng, nd)
        nodes[j]["k"][s] = nd
        nodes.append(nd)
        depth.append(depth[j] + 1)
    return nodes[0]


def _path_name(sep, names):
    return sep + sep.join(names)


def _count_hits(walk, tsep, path_in_tsep):
    pn = path_in_tsep.rstrip(tsep)
    return sum(1 for w in walk if _path_name(tsep, w["names"]).endswith(pn))


def _renderings(names, psep):
    """all ways to write the node whose names-from-root are `names` with separator psep"""
    out = []
    full = psep.join(names)
    out.append(("full", full))
    out.append(("full", psep + full))
    for j in range(2, len(names)):
        out.append(("partial", psep.join(names[-j:])))
    if len(names) >= 2:
        out.append(("partial", psep + psep.join(names[-2:])))
    out.append(("name", names[-1]))
    return out


def _render(rng, walk, idx, tsep, psep, want_unique=True):
    names = walk[idx]["names"]
    cands = _renderings(names, psep)
    kind_pref = rng.choice(["full", "partial", "name", "any"])
    rng.shuffle(cands)
    cands.sort(key=lambda kc: 0 if (kind_pref == "any" or kc[0] == kind_pref) else 1)
    chosen = cands[0][1]
    if want_unique:
        for _, c in cands:
            if _count_hits(walk, tsep, c.replace(psep, tsep)) == 1:
                chosen = c
                break
    if rng.random() < 0.12:
        chosen = chosen + psep
    return chosen


def _missing_path(rng, walk, psep, outside):
    r = rng.random()
    if outside and r < 0.5:
        # a node of the tree that is not below the start node (an ancestor, a sibling branch)
        return psep.join(rng.choice(outside)["names"])
    if r < 0.4:
        return rng.choice(["zz", "q", "ax"])
    a = rng.choice(walk)["names"]
    b = rng.choice(walk)["names"]
    if r < 0.7:
        return psep.join(a + ["zz"])
    return psep.join([b[-1], a[0], "zz"])


def _related(wi, wj):
    return any(wj["d"] is x for x in wi["anc"]) or any(wi["d"] is x for x in wj["anc"])


def _pick_targets(rng, walk, k, nested_ok):
    chosen = []
    tries = 0
    # sometimes: siblings under one parent (with further siblings around)
    if k >= 2 and rng.random() < 0.35:
        parents = [i for i, w in enumerate(walk) if sum(1 for x in w["d"]["k"] if x is not None) >= 2]
        if parents:
            pd = walk[rng.choice(parents)]["d"]
            kids = [i for i, w in enumerate(walk) if any(w["d"] is x for x in pd["k"])]
            rng.shuffle(kids)
            chosen = kids[:k]
    while len(chosen) < k and tries < 30:
        tries += 1
        i = rng.randrange(len(walk))
        if i in chosen:
            continue
        if not nested_ok and any(_related(walk[i], walk[j]) for j in chosen):
            continue
        chosen.append(i)
    return chosen


def gen_case(rng, tier):
    shape = rng.choice(SHAPES)
    pool_name = rng.choice(["distinct", "repeated", "affix", "affix", "special"])
    r = rng.random()
    binary = r >= 0.75
    inner = (0.55 <= r < 0.75) or r >= 0.92
    n = rng.randint(2, 13) if rng.random() < 0.9 else rng.randint(1, 3)
    if inner:
        n = max(n, 4)
    if binary:
        n = min(n, 11)
    tsep = rng.choice(MSEPS) if rng.random() < 0.35 else rng.choice(SEPS)
    psep = tsep if rng.random() < 0.6 else rng.choice(SEPS + MSEPS)
    # the guard of the theorems: no character of a separator occurs in a name.  K3 territory (15% of the
    # multi-character tree separators): names may start/end with a character of the tree separator, they
    # only never contain a whole separator
    k3 = len(tsep) > 1 and rng.random() < 0.15
    extra = []
    if k3:
        extra = [x for ch in sorted(set(tsep)) for x in ("a" + ch, ch + "a", "b" + ch)] * 2
        other = set(psep) - set(tsep)

        def name_ok(nm):
            return tsep not in nm and psep not in nm and not any(ch in nm for ch in other)
    else:
        badc = set(tsep) | set(psep)

        def name_ok(nm):
            return not any(ch in nm for ch in badc)
    tree = (gen_binary_tree(rng, shape, pool_name, n, name_ok, extra) if binary
            else gen_tree(rng, shape, pool_name, n, name_ok, extra))
    whole = _walk(tree)
    start = []
    if inner:
        # an inner node, preferably one that has something below it
        cands = [w for w in whole[1:] if any(k is not None for k in w["d"]["k"])] or whole[1:]
        if cands:
            start = rng.choice(cands)["pos"]
    walk = _walk(tree, start)
    outside = [w for w in whole if w["pos"][:len(start)] != start]
    sd = walk[0]["d"]
    h = _height(sd)
    mode = ("bin" if binary else "node") + ("-inner" if start else "") + ("+msep" if len(tsep) > 1 else "") \
        + ("+k3" if k3 else "")
    fn = "prune" if rng.random() < 0.72 else "subtree"
    if fn == "prune":
        r = rng.random()
        k = 0 if r < 0.07 else 1 if r < 0.45 else 2 if r < 0.85 else 3
        nested_ok = rng.random() < 0.03
        idxs = _pick_targets(rng, walk, k, nested_ok)
        uniq = rng.random() < 0.8
        paths = [_render(rng, walk, i, tsep, psep, uniq) for i in idxs]
        r = rng.random()
        if r < 0.12:
            paths.insert(rng.randint(0, len(paths)), _missing_path(rng, walk, psep, outside))
        elif r < 0.14 and paths:
            paths.insert(rng.randint(0, len(paths)), "")
        arg = paths
        if len(paths) == 1 and rng.random() < 0.5:
            arg = paths[0]
        elif len(paths) == 0 and rng.random() < 0.5:
            arg = ""
        r = rng.random()
        md = 0 if r < 0.5 else rng.randint(1, h + 1)
        if len(paths) == 0 and rng.random() < 0.8:
            md = rng.randint(1, h + 1)
        call = {"fn": "prune", "paths": arg, "exact": rng.random() < 0.5, "psep": psep, "max_depth": md}
        label = f"{mode}/prune{min(len(paths), 3)}/{shape}/{pool_name}"
    else:
        r = rng.random()
        if r < 0.1:
            path = ""
        elif r < 0.8:
            path = _render(rng, walk, rng.randrange(len(walk)), tsep, tsep, True)
        elif r < 0.9:
            path = _missing_path(rng, walk, tsep, outside)
        else:
            path = _render(rng, walk, rng.randrange(len(walk)), tsep, tsep, False)
        md = 0 if rng.random() < 0.4 else rng.randint(1, h + 1)
        call = {"fn": "subtree", "path": path, "max_depth": md}
        label = f"{mode}/subtree/{shape}/{pool_name}"
    if rng.random() < 0.3:
        call["omit"] = True                 # leave out every argument that equals its default
    if call["fn"] == "prune" and isinstance(call["paths"], list) and rng.random() < 0.25:
        call["ptype"] = "tuple"
    case = {"sep": tsep, "tree": tree, "start": start, "binary": binary, "call": call, "stratum": label}
    if rng.random() < 0.2:
        case["cls"] = "sub"                 # a user subclass of Node / BinaryNode
    return label, case


def generate(prop, rng, tier):
    count = {"quick": 2400, "thorough": 40000, "search": 7000}[tier]
    for _ in range(count):
        yield gen_case(rng, tier)
    if tier == "thorough":
        yield from _exhaustive()


def _shapes(n):
    """all ordered trees with n nodes as nested lists of children"""
    if n == 1:
        return [[]]

    def forests(m):
        # ordered forests with m nodes in total
        if m == 0:
            return [[]]
        res = []
        for first in range(1, m + 1):
            for t in _shapes(first):
                for rest in forests(m - first):
                    res.append([t] + rest)
        return res

    return forests(n - 1)


def _exhaustive():
    """small scope: every ordered tree with <= 5 nodes (distinct names), every start node, every single
    target and every non-nested pair of targets below it (full paths), exact on/off, every depth limit;
    every get_subtree"""
    names = ["a", "b", "c", "d", "e"]
    for n in range(1, 6):
        for shp in _shapes(n):
            cnt = [0]

            def mk(kids):
                d = _node(names[cnt[0]])
                cnt[0] += 1
                d["k"] = [mk(k) for k in kids]
                return d

            tree = mk(shp)
            for st in _walk(tree):
                start = st["pos"]
                if start and not st["d"]["k"]:
                    continue
                walk = _walk(tree, start)
                h = _height(st["d"])
                fulls = ["/".join(w["names"]) for w in walk]
                sets = [[p] for p in fulls]
                for i in range(len(walk)):
                    for j in range(i + 1, len(walk)):
                        if not _related(walk[i], walk[j]):
                            sets.append([fulls[i], fulls[j]])
                lab = "exhaustive" + ("-inner" if start else "")
                for ps in sets:
                    for exact in (False, True):
                        for md in range(0, h + 1):
                            yield lab + "/prune", {"sep": "/", "tree": tree, "start": start, "binary": False,
                                                   "stratum": lab,
                                                   "call": {"fn": "prune", "paths": list(ps), "exact": exact,
                                                            "psep": "/", "max_depth": md}}
                for p in fulls:
                    for md in range(0, h + 1):
                        yield lab + "/subtree", {"sep": "/", "tree": tree, "start": start, "binary": False,
                                                 "stratum": lab,
                                                 "call": {"fn": "subtree", "path": p, "max_depth": md}}


def _t(name, kids=(), **attrs):
    return {"n": name, "a": dict(attrs), "k": list(kids)}


def _b(name, left=None, right=None, **attrs):
    return {"n": name, "a": dict(attrs), "k": [left, right]}


def corpus(prop):
    doc = _t("a", [_t("b", [_t("c"), _t("d")]), _t("e")])
    fixture = _t("a", [_t("b", [_t("d", age=40), _t("e", [_t("g"), _t("h")], age=35)], age=65),
                       _t("c", [_t("f", age=38)], age=60)], age=90)
    deep = _t("r", [_t("p", [_t("q", [_t("s", [_t("u"), _t("v"), _t("w")]), _t("t")])]), _t("o")])
    affix = _t("r", [_t("xa", [_t("c")]), _t("d"), _t("a", [_t("b"), _t("ab")])])
    btree = _b("1", _b("2", None, _b("4", _b("6"), None)), _b("3", _b("5", x=1), None))
    out = []

    def prune(label, tree, paths, exact=False, psep="/", md=0, sep="/", start=(), binary=False):
        out.append((label, {"sep": sep, "tree": tree, "start": list(start), "binary": binary, "stratum": "corpus",
                            "call": {"fn": "prune", "paths": paths, "exact": exact, "psep": psep, "max_depth": md}}))

    def sub(label, tree, path, md=0, sep="/", start=(), binary=False):
        out.append((label, {"sep": sep, "tree": tree, "start": list(start), "binary": binary, "stratum": "corpus",
                            "call": {"fn": "subtree", "path": path, "max_depth": md}}))

    prune("doc", doc, "a/b")
    prune("doc", doc, "a/b", exact=True)
    prune("doc", doc, ["a/b/d", "a/e"])
    prune("doc", doc, "", md=2)
    prune("args", doc, "")
    prune("args", doc, [])
    prune("two-exact", fixture, ["a/b/e", "a/c"], exact=True)
    prune("two-siblings", fixture, ["b/d", "b/e"], exact=False)
    prune("missing-second", fixture, ["a/b", "a/zz"])
    prune("depth", fixture, ["a/b"], md=3)
    prune("deep-right", deep, ["q/s"])
    prune("affix-name", affix, "a")              # `a` is also a trailing part of /r/xa: SearchError
    prune("affix-name", affix, "/a")
    prune("affix-name", affix, ["r/xa", "ab"], exact=True)
    prune("sep", fixture, ["a.b.e", "c"], psep=".")
    sub("doc", doc, "b")
    sub("depth", fixture, "b", md=2)
    sub("depth", deep, "q", md=2)
    sub("missing", doc, "zz")
    sub("root", fixture, "", md=2)
    # inner start node
    prune("inner", fixture, "e/g", start=[0])
    prune("inner", fixture, "a/b/e", exact=True, start=[0])
    prune("inner-depth", fixture, "", md=2, start=[0])
    prune("inner-outside", fixture, "a/c", start=[0])            # a node outside the start node's subtree
    prune("inner-ancestor", fixture, "a", start=[0])              # the start node's own ancestor
    sub("inner", fixture, "e", md=1, start=[0])
    sub("inner", deep, "", md=2, start=[0, 0])
    sub("inner-outside", fixture, "c", start=[0])
    # BinaryNode trees with empty slots
    prune("binary", btree, "1/2/4", binary=True)
    prune("binary", btree, "4", exact=True, binary=True)
    prune("binary", btree, ["1/2", "5"], binary=True)
    prune("binary", btree, "", md=2, binary=True)
    prune("binary-inner", btree, "4", start=[0], binary=True)
    sub("binary", btree, "2", md=2, binary=True)
    # K3 (known finding): with the multi-character separator "->" find_path strips the character
    # *set* {'-','>'} from the right of the prune path, so "r->a-" is looked up as "r->a"
    k3 = _t("r", [_t("a", [_t("c")], x=1), _t("a-", [_t("d")], y=2)])
    prune("K3-multichar-sep", k3, "r->a-", psep="->", sep="->")
    return out


def matches_finding(prop, entry, case, obs, flags):
    if entry.get("id") != "K3-C14":
        return False
    tsep = case["sep"]
    if len(tsep) <= 1 or flags != 2:
        return False
    # the documented behaviour: a multi-character tree separator, some name of the tree starts or ends with
    # one of its characters, the model (character-set rstrip) agrees with the implementation and the
    # property predicate (whole-separator stripping) is false on that output
    chars = set(tsep)
    return any(w["d"]["n"] and (w["d"]["n"][0] in chars or w["d"]["n"][-1] in chars) for w in _walk(case["tree"]))


# ---------------------------------------------------------------------------------------------
# shrinking, evidence


def _count(d):
    return 1 + sum(_count(k) for k in d["k"] if k is not None)


def size(case):
    c = case["call"]
    p = c.get("paths", c.get("path"))
    np = len(p) if isinstance(p, list) else 1
    return (10 * _count(case["tree"]) + 5 * np + len(json.dumps(c)) + 3 * len(case.get("start", []))
            + sum(len(w["d"]["a"]) for w in _walk(case["tree"])))


def shrink_candidates(prop, case):
    tree = case["tree"]
    binary = bool(case.get("binary"))
    start = list(case.get("start", []))
    walk = _walk(tree)
    # remove one whole subtree that does not contain the start node
    for idx in range(len(walk) - 1, 0, -1):
        pos = walk[idx]["pos"]
        if start[:len(pos)] == pos:
            continue
        c = copy.deepcopy(case)
        w = _walk(c["tree"])[idx]
        parent = w["anc"][-1]
        i = pos[-1]
        if binary:
            parent["k"][i] = None
        else:
            del parent["k"][i]
            st = list(start)
            if len(st) >= len(pos) and st[:len(pos) - 1] == pos[:-1] and st[len(pos) - 1] > i:
                st[len(pos) - 1] -= 1
            c["start"] = st
        yield c
    # call on the root of the start node's subtree only (drop everything above it)
    if start:
        c = copy.deepcopy(case)
        c["tree"] = _start_dict(c)
        c["start"] = []
        yield c
    call = case["call"]
    if call["fn"] == "prune" and isinstance(call["paths"], list):
        for i in range(len(call["paths"])):
            c = copy.deepcopy(case)
            del c["call"]["paths"][i]
            yield c
    if call["max_depth"]:
        c = copy.deepcopy(case)
        c["call"]["max_depth"] = 0
        yield c
    if call.get("exact"):
        c = copy.deepcopy(case)
        c["call"]["exact"] = False
        yield c
    if any(w["d"]["a"] for w in walk):
        c = copy.deepcopy(case)
        for w in _walk(c["tree"]):
            w["d"]["a"] = {}
        yield c


def nontrivial(prop, case, obs):
    n = _count(_start_dict(case))
    if "tree" in obs:
        real = sum(1 for row in obs["tree"] if row[1] != "")
        return 1 < real < n
    c = case["call"]
    return n >= 3 and c["fn"] == "prune" and isinstance(c["paths"], list) and len(c["paths"]) >= 2


def sample(prop, case, obs):
    return {"sep": case["sep"], "tree": case["tree"], "start": case.get("start", []),
            "binary": bool(case.get("binary")), "call": case["call"],
            "returned": obs.get("tree", None), "exception_code": obs.get("err", None),
            "printed": obs.get("print", None)}


def rule(prop):
    return ("random trees (1-13 nodes; shapes wide/deep/mixed/path/star/bushy-at-depth>=4; name pools distinct/"
            "repeated-across-branches/affix-related a,xa,b,ab,bc/special characters; tree separators / \\ - . | (65%) "
            "or -> :: => // -|- (35%), prune separator equal or different; names free of separator characters "
            "except in 15% of the multi-character cases (names starting/ending with a separator character: K3 "
            "territory, matched to K3-C14 only when flags==2 and such a name exists); modes: Node tree called on its root (55%) or on an inner node (20%), "
            "BinaryNode tree with empty slots on root (17%) or inner node (8%); x prune_tree(0-3 non-nested targets "
            "below the start node written as full/partial/bare-name paths, leading/trailing separator, missing paths "
            "incl. nodes outside the start node's subtree, empty paths, str or list argument, exact on/off, max_depth "
            "0..height+1) or get_subtree(path, max_depth) + the same arguments through print_tree and hyield_tree; "
            "paths as str/list/tuple; 30% of the calls leave out arguments equal to their default; 20% use a user "
            "subclass of Node/BinaryNode; nodes carry private '_' attributes, list-valued attributes and their own "
            "_sep; every call is made twice and followed by a change of the input; thorough adds all "
            "ordered trees <= 5 nodes x every start node x all single/non-nested-pair targets x exact x depth; "
            "non-trivial = a returned tree with more than one and fewer than all nodes of the start node's subtree, or "
            "an exception on a call with >= 2 paths; distinct by canonical JSON hash")


def explain(prop, case, obs, flags):
    from ._base import explain as base
    if isinstance(obs, dict) and "_harness_error" not in obs and flags & 2:
        failed = sorted(k for k, v in obs.get("inv", {}).items() if not v)
        if failed:
            return ("prop_C14 side condition(s) false on the live objects: " + ", ".join(failed) + " (source_same/"
                    "arg_same: input tree, separators, path argument unchanged; class_same/links/fresh_nodes/"
                    "fresh_values/independent: the result is a self-contained copy of the input's node class; "
                    "repeatable: a second identical call gives the same answer; hprint: hyield_tree shows the "
                    "same nodes as print_tree)")
        return ("prop_C14 is false on the implementation's output: the returned pre-order (depth, name, attrs) "
                "list is not `filter keep` of the start node's subtree (or not the addressed subtree / not a new "
                "root / an emptied BinaryNode slot moved / print_tree shows something else), or a path that "
                "addresses no node was not answered by an exception")
    return base(prop, case, obs, flags)


def trusted_base(prop):
    return COMMON_TB + [
        "observation of the returned tree through Node.children / Node.depth / vars(node) (user attributes = "
        "instance attributes not starting with '_' except name, and val for BinaryNode); print_tree output parsed "
        "as fixed-width ansi prefixes (4 characters per level)",
    ]


def partial_clauses(prop):
    return [
        "nested prune targets are outside the property's quantifier: the check skips them (F_SKIP, ~0.5% of the "
        "cases).  What the code does there is proved (C14_prune_kept_nested / C14_detach_rule_general: routes to "
        "all targets, descendants only of the lowest targets) and the union formula of the property text is "
        "refuted for them (C14_nested_union_refuted, replayed on /repo: prune_tree(r(a(b,c)), ['r/a','r/a/b']) "
        "drops c)",
        "separators: the addressing theorems hold for tree separators of any positive length under `paths_ok` "
        "(character-set rstrip = whole-separator stripping on the path); `paths_ok` is proved for one-character "
        "separators (all paths), for well-formed paths (C14_paths_ok_wellformed) and for the strings users pass: "
        "names written with the `sep` argument, optional leading / trailing separators, no character of either "
        "separator in a name (C14_paths_ok_of_rendered via C14_replace_rendered).  Outside it the faithful model "
        "violates the predicate: K3-C14 (a name ending in a separator character) and malformed paths such as 'b>' "
        "for sep '->' (C14_multichar_malformed_path_refuted; not generated)",
        "a prune path that addresses several nodes is answered by SearchError in model and code; the predicate "
        "makes no claim there (documented precondition: path names unique); model and code are still compared",
        "umbrella: C14_umbrella proves prop_C14_at (and the 'new root' clause) of the model for every case of "
        "the modelled domain - Node and BinaryNode trees, root and inner start nodes, prune_tree and get_subtree, "
        "all flags and depth limits, separators of any positive length - under `case_ok`: start position exists, "
        "paths satisfy paths_ok/strip_ok, BinaryNode encoding invariant wf2 (empty slot = HOLE, real node = two "
        "slots; what the harness emits).  Not in the umbrella: the print_tree / hyield_tree observation "
        "(prop_C14_print, harness side conditions) - these are evaluated on the implementation's output only",
        "inner start node: the reading is 'the tree = the start node's subtree, depths counted from the start "
        "node'.  What is above the returned node of prune_tree is proved of the derived whole-copy description "
        "(C14_inner_whole_copy_depth, C14_inner_whole_copy_above_below, C14_inner_result_in_whole_copy) and "
        "compared with result.root on every inner-node prune_tree call on Node trees (any paths, any depth "
        "limit); for BinaryNode trees result.root is not observed.  The predicate does not require prune_tree's "
        "result to be a root (it is not: it stays attached to the copied ancestors)",
        "BinaryNode trees: besides the umbrella - C14_binary_observation (markers), C14_binary_depth_cut(_slots, "
        "_real, _is_surgery), C14_binary_slots_preserved, C14_binary_addressing, C14_binary_prune_kept_spec, "
        "C14_binary_missing_path_error, C14_binary_get_subtree, C14_binary_inner_prune",
        "max_depth is a natural number (negative ints behave as 'no limit' in the code and are not generated)",
        "accepted blind spots of the correspondence: (a) nested targets skipped; empty separators (Unmodelled) "
        "never generated; (b) for a missing path the predicate accepts any exception class and for an ambiguous "
        "path it accepts anything (the model comparison is exact on the class in both); (c) argument types never "
        "generated: generators/sets of paths (the code needs len()), non-bool exact, None/negative max_depth, "
        "non-str names, names containing a newline on the print path; (d) hyield_tree is compared with print_tree "
        "as a multiset of names and only for alphanumeric names, print_tree only in ansi style; hprint_tree / "
        "yield_tree are reached through these two; (e) attribute values are compared after canonicalisation "
        "(lists as their JSON text, attributes sorted by key); (f) the separator of the result is observed as "
        "each node's own _sep (copied as is) - get_subtree's result takes the separator of the addressed node, "
        "not of the tree; (g) the functions are called twice on the same input but never on their own result; no "
        "hooks/threads",
    ]


def assumptions(prop):
    return [
        "'a path addresses a node' = after removing trailing separators the path is a trailing part of the "
        "node's path_name as a *string* (find_path's documented meaning, DESIGN.md C09); hence the bare name "
        "'a' also addresses a node named 'xa'",
    ]
