"""Static tie for C20: the Coq models (Heap/Forest.v, Heap/Binary.v, Heap/Dag.v) read the switch in exactly
one way -- `if assertions cfg then <pure check> ...` at the top of a setter.  This scan re-derives that
shape from /repo's current source on every run: every read of `ASSERTIONS` anywhere under bigtree/ must be
the test of an else-less `if ASSERTIONS:` inside a property setter whose body is nothing but calls of
`self.__check_*` methods.  Any other dependence on the switch (a read in another function, an `else`
branch, other statements under the flag, an alias, a second read of the environment variable) is logic the
models do not have: the tie between model and code is broken for C20 and the check says so (after
searching for a concrete failing history)."""
import ast
import os

ENV = "BIGTREE_CONF_ASSERTIONS"
NAME = "ASSERTIONS"


def _is_docstring_expr(stmt):
    return isinstance(stmt, ast.Expr) and isinstance(stmt.value, ast.Constant) and isinstance(stmt.value.value, str)


def _is_setter(fn):
    for d in fn.decorator_list:
        if isinstance(d, ast.Attribute) and d.attr == "setter":
            return True
    return False


def _check_call(stmt):
    """`self.<guard method>(<names>)` as a statement (result unused, nothing assigned)"""
    if not isinstance(stmt, ast.Expr) or not isinstance(stmt.value, ast.Call):
        return False
    f = stmt.value.func
    if not (isinstance(f, ast.Attribute) and isinstance(f.value, ast.Name) and f.value.id == "self"):
        return False
    return all(isinstance(a, ast.Name) for a in stmt.value.args) and not stmt.value.keywords


def scan_file(path, rel):
    """returns (sites, deviations): guarded sites found and everything that is not of the modelled shape"""
    try:
        tree = ast.parse(open(path).read())
    except Exception as e:
        return [], [f"{rel}: unparsable ({type(e).__name__})"]
    sites, dev = [], []
    parents = {}
    for n in ast.walk(tree):
        for c in ast.iter_child_nodes(n):
            parents[c] = n
    docstrings = set()
    for n in ast.walk(tree):
        if isinstance(n, (ast.Module, ast.ClassDef, ast.FunctionDef, ast.AsyncFunctionDef)) and n.body \
                and _is_docstring_expr(n.body[0]):
            docstrings.add(n.body[0].value)
    is_globals = rel.replace(os.sep, "/").endswith("bigtree/globals.py")
    for n in ast.walk(tree):
        if isinstance(n, ast.Name) and n.id == NAME:
            if isinstance(n.ctx, ast.Store):
                if not is_globals:
                    dev.append(f"{rel}:{n.lineno}: {NAME} is assigned outside globals.py")
                continue
            p = parents.get(n)
            if not (isinstance(p, ast.If) and p.test is n):
                dev.append(f"{rel}:{n.lineno}: {NAME} is read outside a plain `if {NAME}:` test")
                continue
            bad = [s for s in p.body if not _check_call(s)]
            if p.orelse:
                # `if A: g1; S; g2  else: S` is the modelled shape again once the guard calls are taken out:
                # the statements the two branches share run under both settings
                if [ast.dump(s) for s in bad] != [ast.dump(s) for s in p.orelse]:
                    dev.append(f"{rel}:{p.lineno}: `if {NAME}:` has an else branch that differs from the "
                               f"non-guard statements of the if branch (behaviour specific to one setting)")
            elif bad:
                dev.append(f"{rel}:{bad[0].lineno}: statement under `if {NAME}:` is not a call of a self.__check_* guard")
            fn = parents.get(p)
            if not (isinstance(fn, ast.FunctionDef) and _is_setter(fn)):
                where = fn.name if isinstance(fn, (ast.FunctionDef, ast.AsyncFunctionDef)) else type(fn).__name__
                dev.append(f"{rel}:{p.lineno}: `if {NAME}:` outside a property setter (in {where})")
            else:
                sites.append(f"{rel}:{fn.name}.setter")
        elif isinstance(n, ast.Attribute) and n.attr == NAME:
            dev.append(f"{rel}:{n.lineno}: attribute access .{NAME}")
        elif isinstance(n, ast.alias) and n.name == NAME and n.asname not in (None, NAME):
            dev.append(f"{rel}:{getattr(n, 'lineno', 0)}: {NAME} imported under another name ({n.asname})")
        elif isinstance(n, ast.Constant) and isinstance(n.value, str) and n not in docstrings:
            if n.value == NAME or (ENV in n.value and not is_globals):
                dev.append(f"{rel}:{n.lineno}: string {n.value!r} (indirect access to the switch)")
    if is_globals:
        # exactly one definition, computed from the environment once at import
        defs = [n for n in ast.walk(tree) if isinstance(n, (ast.Assign, ast.AnnAssign, ast.AugAssign))
                and any(isinstance(t, ast.Name) and t.id == NAME
                        for t in (n.targets if isinstance(n, ast.Assign) else [n.target]))]
        if len(defs) != 1 or parents.get(defs[0]) is not tree:
            dev.append(f"{rel}: {NAME} is not defined exactly once at module level")
    return sites, dev


def scan(repo):
    sites, dev = [], []
    root = os.path.join(repo, "bigtree")
    for d, _, files in sorted(os.walk(root)):
        for f in sorted(files):
            if f.endswith(".py"):
                p = os.path.join(d, f)
                s, v = scan_file(p, os.path.relpath(p, repo))
                sites += s
                dev += v
    return {"guard_sites": sorted(sites), "deviations": dev}


if __name__ == "__main__":
    import json
    import sys
    print(json.dumps(scan(sys.argv[1] if len(sys.argv) > 1 else os.environ.get("VERIF_REPO", "/repo")), indent=1))
