"""Generic driver of the correspondence checks.

One run = (1) make sure the Coq development (models, theorems) is built, (2) generate cases from one
PRNG, (3) run the implementation from /repo's working tree on every case in worker processes,
(4) write the cases with the observations as Coq literals into build/<run>/cases_k.v and let coqc
evaluate `flags_of check_Cxx cases` with vm_compute, (5) on any non-zero flag: shrink, search for an
input on which the property predicate is false on the implementation's output, write a replay file
and print the VIOLATION line, (6) write evidence/<id>.json.
"""
from __future__ import annotations

import fcntl
import hashlib
import importlib
import json
import multiprocessing as mp
import os
import random
import re
import shutil
import signal
import subprocess
import sys
import time
import traceback

VERIF = os.path.dirname(os.path.dirname(os.path.abspath(__file__)))
COQ = os.path.join(VERIF, "coq")
REPO = os.environ.get("VERIF_REPO", "/repo")
NPROC = int(os.environ.get("VERIF_NPROC", "16"))
CASES_PER_FILE = 250
COQC_TIMEOUT = 600
CASE_TIMEOUT = int(os.environ.get("VERIF_CASE_TIMEOUT", "30"))

F_DISAGREE, F_PROPFAIL, F_SKIP = 1, 2, 4


# ----------------------------------------------------------------------------------------------
# Coq literal helpers



def _annotate_closed(prop, clauses):
    """append the present theorem status to partial clauses that later theorem files closed or narrowed
    (harness/closed_clauses.json); the engines' texts are kept as the record of what was partial when written"""
    try:
        table = json.load(open(os.path.join(os.path.dirname(os.path.abspath(__file__)), "closed_clauses.json"))).get(prop, [])
    except Exception:
        table = []
    out = []
    for c in clauses:
        for sub, note in table:
            if sub in c:
                c = c + "  [UPDATE: " + note + "]"
        out.append(c)
    return out


def cnat(n: int) -> str:
    assert isinstance(n, int) and n >= 0, n
    return str(n)


def cN(n: int) -> str:
    return f"{n}%N"


def cZ(n: int) -> str:
    return f"({n})%Z"


def cbool(b) -> str:
    return "true" if b else "false"


def clist(items) -> str:
    return "[" + "; ".join(items) + "]"


def copt(x, f=lambda v: v) -> str:
    return "None" if x is None else f"(Some {f(x)})"


def cstr(s: str) -> str:
    """A Python str as `list N` of code points."""
    if not isinstance(s, str):
        raise TypeError(f"expected str, got {type(s)}")
    return "[" + "; ".join(str(ord(ch)) for ch in s) + "]%N"


def cpair(a: str, b: str) -> str:
    return f"({a}, {b})"


# ----------------------------------------------------------------------------------------------
# Build of the Coq development


def _lock():
    os.makedirs(os.path.join(VERIF, "build"), exist_ok=True)
    f = open(os.path.join(VERIF, "build", ".lock"), "w")
    fcntl.flock(f, fcntl.LOCK_EX)
    return f


def _vfiles():
    return sorted(
        os.path.relpath(os.path.join(d, f), COQ)
        for d, _, fs in os.walk(os.path.join(COQ, "theories"))
        for f in fs
        if f.endswith(".v")
    )


def ensure_coq_built(targets=None, props=()):
    """(Re)build the Coq library with a full `make` (no -vos).  `targets`: .vo files to build (with
    everything they depend on); None = the whole development.  Returns (ok, log_tail)."""
    lk = _lock()
    try:
        files = _vfiles()
        stamp = os.path.join(VERIF, "build", ".vfiles")
        old = open(stamp).read().split("\n") if os.path.exists(stamp) else None
        if old != files or not os.path.exists(os.path.join(COQ, "Makefile")):
            p = subprocess.run(
                ["coq_makefile", "-f", "_CoqProject", "-o", "Makefile"] + files,
                cwd=COQ, stdout=subprocess.PIPE, stderr=subprocess.STDOUT, text=True,
            )
            if p.returncode:
                return False, p.stdout[-2000:]
            for junk in (".Makefile.d",):
                try:
                    os.remove(os.path.join(COQ, junk))
                except OSError:
                    pass
            open(stamp, "w").write("\n".join(files))
        p = subprocess.run(
            ["timeout", "3000", "make", f"-j{NPROC}"] + (targets or []),
            cwd=COQ, stdout=subprocess.PIPE, stderr=subprocess.STDOUT, text=True,
        )
        if p.returncode != 0:
            return False, p.stdout[-3000:]
        # Print Assumptions report of the property files
        os.makedirs(os.path.join(COQ, "assumptions"), exist_ok=True)
        os.makedirs(os.path.join(VERIF, "build", "assum_tmp"), exist_ok=True)
        for src in [f for prop in props for f in _prop_files(prop)]:
            base = os.path.basename(src)[:-2]
            rep = os.path.join(COQ, "assumptions", f"{base}.txt")
            if not os.path.exists(src[:-2] + ".vo"):
                return False, f"{src} was not compiled"
            if not os.path.exists(rep) or os.path.getmtime(rep) < os.path.getmtime(src[:-2] + ".vo"):
                q = subprocess.run(["timeout", "600", "coqc", "-Q", "theories", "BT", "-w", "-all",
                                    "-o", os.path.join(VERIF, "build", "assum_tmp", f"{base}.vo"), src],
                                   cwd=COQ, stdout=subprocess.PIPE, stderr=subprocess.STDOUT, text=True)
                if q.returncode != 0:
                    return False, q.stdout[-3000:]
                open(rep, "w").write(q.stdout)
        return True, p.stdout[-1000:]
    finally:
        lk.close()


def _prop_files(prop_id):
    """Props/<id>.v and Props/<id>_*.v (a property may be split over several theorem files)"""
    d = os.path.join(COQ, "theories", "Props")
    if not os.path.isdir(d):
        return []
    return sorted(os.path.join(d, f) for f in os.listdir(d)
                  if f.endswith(".v") and (f == prop_id + ".v" or f.startswith(prop_id + "_")))


def theorem_inventory(prop_id):
    """Theorems of the property's files and whether the compiled files and assumption reports exist."""
    names, discharged, assum = [], 0, []
    for src in _prop_files(prop_id):
        text = open(src).read()
        found = re.findall(r"^\s*(?:Theorem|Corollary)\s+(\w+)", text, re.M)
        names += found
        vo = src[:-2] + ".vo"
        if os.path.exists(vo) and os.path.getmtime(vo) >= os.path.getmtime(src):
            discharged += len(found)
        rep = os.path.join(COQ, "assumptions", os.path.basename(src)[:-2] + ".txt")
        if os.path.exists(rep):
            assum += [l.rstrip() for l in open(rep).read().splitlines() if l.strip()]
    # compress the report: count of closed theorems + anything else verbatim
    closed = sum(1 for l in assum if l.startswith("Closed under the global context"))
    other = [l for l in assum if not l.startswith("Closed under the global context")]
    assum = [f"Closed under the global context  (x{closed})"] + other if assum else []
    return names, discharged, assum


# ----------------------------------------------------------------------------------------------
# Running the implementation


class _Timeout(BaseException):
    """not an Exception: bigtree's setters catch Exception and roll back; the timeout must get through"""


def _alarm(signum, frame):
    raise _Timeout()


_ENGINE = None


def _worker_init(engine_mod):
    global _ENGINE
    if REPO not in sys.path:
        sys.path.insert(0, REPO)
    _ENGINE = importlib.import_module(engine_mod)
    signal.signal(signal.SIGALRM, _alarm)


def _worker_run(arg):
    prop, case = arg
    signal.setitimer(signal.ITIMER_REAL, CASE_TIMEOUT, 1.0)   # re-fires every second once expired
    try:
        return _ENGINE.run_impl(prop, case)
    except _Timeout:
        return {"_harness_error": f"timeout ({CASE_TIMEOUT} s) while running the implementation"}
    except BaseException as e:  # noqa
        return {"_harness_error": "".join(traceback.format_exception_only(type(e), e)).strip()[:400]}
    finally:
        signal.setitimer(signal.ITIMER_REAL, 0)


MAX_TIMEOUTS = 6      # after this many cases hit the per-case timeout the rest of the batch is not run


class ImplPool:
    """Worker processes running the implementation.  A change that makes the implementation loop
    for ever must not make the check run for hours: after MAX_TIMEOUTS timed-out cases the remaining
    cases of the batch are not run (they are marked `_not_run` and ignored; the timed-out ones are
    reported as disagreements)."""

    def __init__(self, engine_mod):
        self.engine_mod = engine_mod
        self.pool = None

    def _ensure(self):
        if self.pool is None:
            ctx = mp.get_context("fork")
            self.pool = ctx.Pool(NPROC, initializer=_worker_init, initargs=(self.engine_mod,))

    def run(self, prop, cases):
        """Ordered results.  A worker that dies (segfault, os._exit, killed) would make Pool.imap wait
        for ever: every result is awaited with a timeout; on expiry the case is recorded as an error,
        the pool is rebuilt and the run continues with the next case (at most MAX_TIMEOUTS times)."""
        out = []
        timeouts = 0
        start = 0
        while start < len(cases) and timeouts < MAX_TIMEOUTS:
            self._ensure()
            it = self.pool.imap(_worker_run, [(prop, c) for c in cases[start:]], chunksize=1)
            lost = False
            while len(out) < len(cases):
                try:
                    o = it.next(timeout=CASE_TIMEOUT * 3 + 30)
                except StopIteration:
                    break
                except mp.TimeoutError:
                    out.append({"_harness_error": "timeout: no answer from the worker process (died or hung)"})
                    timeouts += 1
                    lost = True
                    break
                out.append(o)
                if isinstance(o, dict) and str(o.get("_harness_error", "")).startswith("timeout"):
                    timeouts += 1
                    if timeouts >= MAX_TIMEOUTS:
                        lost = True
                        break
            if lost:
                self.close()
            start = len(out)
            if not lost:
                break
        if len(out) < len(cases):
            self.close()
            out += [{"_not_run": True} for _ in range(len(cases) - len(out))]
        return out

    def close(self):
        if self.pool is not None:
            self.pool.terminate()
            self.pool.join()
            self.pool = None


# ----------------------------------------------------------------------------------------------
# Evaluating cases in Coq


def coq_eval(engine, prop, cases, obss, workdir, tag="cases"):
    """Returns {index: flags} for the cases with non-zero flags, plus python-level failures."""
    os.makedirs(workdir, exist_ok=True)
    flags = {}
    terms = []
    for i, (c, o) in enumerate(zip(cases, obss)):
        if isinstance(o, dict) and "_not_run" in o:
            terms.append(None)
            continue
        if isinstance(o, dict) and "_harness_error" in o:
            flags[i] = F_DISAGREE
            terms.append(None)
            continue
        try:
            terms.append(engine.emit(prop, c, o))
        except Exception as e:  # the observation does not even have the expected shape
            o_err = "".join(traceback.format_exception_only(type(e), e)).strip()[:300]
            obss[i] = {"_harness_error": "observation not encodable: " + o_err, "obs": repr(o)[:500]}
            flags[i] = F_DISAGREE
            terms.append(None)
    live = [(i, t) for i, t in enumerate(terms) if t is not None]
    per = getattr(engine, "CASES_PER_FILE", CASES_PER_FILE)
    files = []
    for k in range(0, len(live), per):
        chunk = live[k:k + per]
        path = os.path.join(workdir, f"{tag}_{k // per}.v")
        with open(path, "w") as f:
            f.write(engine.coq_header(prop) + "\n")
            f.write(f"Definition cases : list {engine.coq_case_type(prop)} := [\n")
            f.write(";\n".join(t for _, t in chunk))
            f.write("\n].\n")
            f.write(f"Eval vm_compute in (flags_of {engine.coq_check(prop)} cases).\n")
        files.append((path, [i for i, _ in chunk]))
    procs = []
    results = {}
    pending = list(files)
    running = []
    errors = []
    while pending or running:
        while pending and len(running) < NPROC:
            path, idxs = pending.pop(0)
            # output goes to a file, not a pipe: a long error message (an ill-typed literal is echoed in
            # full) would fill a pipe nobody reads while polling and block coqc until its timeout
            outf = open(path + ".out", "w+")
            p = subprocess.Popen(
                ["timeout", str(COQC_TIMEOUT), "coqc", "-Q", os.path.join(COQ, "theories"), "BT",
                 "-w", "-all", path],
                cwd=workdir, stdout=outf, stderr=subprocess.STDOUT, text=True,
            )
            p._outf = outf
            running.append((p, path, idxs))
        still = []
        for p, path, idxs in running:
            if p.poll() is None:
                still.append((p, path, idxs))
                continue
            p._outf.seek(0)
            out = p._outf.read()
            p._outf.close()
            if p.returncode != 0:
                errors.append((path, out[-1500:]))
                for i in idxs:
                    flags[i] = flags.get(i, 0) | F_DISAGREE
                continue
            m = re.search(r"=\s*\[(.*?)\]\s*:\s*list nat", out, re.S)
            if not m:
                errors.append((path, out[-1500:]))
                for i in idxs:
                    flags[i] = flags.get(i, 0) | F_DISAGREE
                continue
            for num in re.findall(r"\d+", m.group(1)):
                v = int(num)
                flags[idxs[v // 8]] = v % 8
        running = still
        if running:
            time.sleep(0.05)
    return flags, errors


# ----------------------------------------------------------------------------------------------
# Known findings


def load_known_findings():
    path = os.path.join(VERIF, "known_findings.json")
    if not os.path.exists(path):
        return []
    return json.load(open(path)).get("entries", [])


# ----------------------------------------------------------------------------------------------
# The run


def canonical_hash(case) -> str:
    return hashlib.sha1(json.dumps(case, sort_keys=True, default=str).encode()).hexdigest()


def run_part(prop, engine_mod, tier, seed, workdir, replay_case=None, amplify=False):
    """One engine's share of a property check.  Returns a dict with counts, violations, notes."""
    engine = importlib.import_module(engine_mod)
    rng = random.Random(seed)
    res = {"engine": engine_mod, "violations": [], "known_lines": [], "notes": []}
    if replay_case is not None:
        cases = [replay_case]
        strata = {"replay": 1}
    else:
        cases = []
        strata = {}
        for label, c in engine.corpus(prop):
            cases.append(c)
            strata["corpus:" + label] = strata.get("corpus:" + label, 0) + 1
        for label, c in engine.generate(prop, rng, tier):
            cases.append(c)
            strata[label] = strata.get(label, 0) + 1
        if amplify and tier == "quick":
            # an anchored source file changed since anchors.lock: spend more cases on this property
            for label, c in engine.generate(prop, random.Random(seed + 104729), "search"):
                cases.append(c)
                strata["amplified:" + label] = strata.get("amplified:" + label, 0) + 1
    pool = ImplPool(engine_mod)
    matched = {}
    try:
        obss = pool.run(prop, cases)
        flags, errors = coq_eval(engine, prop, cases, obss, workdir)
        if errors:
            res["notes"].append({"coqc_errors": errors[:3]})
        bad = sorted(i for i, f in flags.items() if f & (F_DISAGREE | F_PROPFAIL))
        skipped = sum(1 for f in flags.values() if f == F_SKIP)

        # known findings: an entry matches when the engine says this case is that finding
        kf = [e for e in load_known_findings() if e.get("property") == prop and e.get("status") == "finding"]
        unexplained = []
        for i in bad:
            hit = None
            for e in kf:
                if engine.matches_finding(prop, e, cases[i], obss[i], flags[i]):
                    hit = e
                    break
            if hit is not None:
                matched.setdefault(hit["id"], (hit, i))
            else:
                unexplained.append(i)
        for fid, (e, i) in matched.items():
            res["known_lines"].append(f"KNOWN-FINDING: property={prop} {e['text']}")

        if unexplained:
            # prefer a case where the property itself is false on the implementation's output
            unexplained.sort(key=lambda i: (0 if flags[i] & F_PROPFAIL else 1, engine.size(cases[i])))
            i0 = unexplained[0]
            case, obs, fl = shrink(engine, prop, pool, cases[i0], obss[i0], flags[i0], workdir, kf)
            if not (fl & F_PROPFAIL):
                # search: other failing cases, then a directed extra batch
                found = None
                for j in unexplained[1:40]:
                    if flags[j] & F_PROPFAIL:
                        found = shrink(engine, prop, pool, cases[j], obss[j], flags[j], workdir, kf)
                        break
                if found is None and replay_case is None:
                    extra = [c for _, c in engine.generate(prop, random.Random(seed + 7919), "search")]
                    eobs = pool.run(prop, extra)
                    eflags, _ = coq_eval(engine, prop, extra, eobs, workdir, tag="search")
                    cand = sorted((j for j, f in eflags.items() if f & F_PROPFAIL
                                   and not any(engine.matches_finding(prop, e, extra[j], eobs[j], f) for e in kf)),
                                  key=lambda j: engine.size(extra[j]))
                    if cand:
                        j = cand[0]
                        found = shrink(engine, prop, pool, extra[j], eobs[j], eflags[j], workdir, kf)
                if found is not None:
                    case, obs, fl = found
            h = canonical_hash(case)[:12]
            rp = os.path.join(VERIF, "evidence", "replays", f"{prop}-{h}.json")
            json.dump({
                "property": prop, "engine": engine_mod, "seed": seed,
                "kind": "property-false-on-implementation-output" if fl & F_PROPFAIL
                        else "correspondence-broken",
                "what": engine.explain(prop, case, obs, fl),
                "check": engine.coq_check(prop),
                "case": case, "observation": obs, "flags": fl,
                "failing_cases_in_run": len(unexplained),
            }, open(rp, "w"), indent=1, default=str)
            res["violations"].append((rp, "" if fl & F_PROPFAIL else " no-failing-input-found"))
    finally:
        pool.close()

    seen = set()
    nontrivial = 0
    for c, o in zip(cases, obss):
        h = canonical_hash(c)
        if h in seen:
            continue
        seen.add(h)
        if not (isinstance(o, dict) and ("_harness_error" in o or "_not_run" in o)) and engine.nontrivial(prop, c, o):
            nontrivial += 1
    okidx = [i for i, o in enumerate(obss) if not (isinstance(o, dict) and ("_harness_error" in o or "_not_run" in o))]
    pick = sorted(rng.sample(okidx, min(2, len(okidx)))) if okidx else []
    res["timeouts_or_errors"] = sum(1 for o in obss if isinstance(o, dict) and "_harness_error" in o)
    res["not_run"] = sum(1 for o in obss if isinstance(o, dict) and "_not_run" in o)
    res.update({
        "evaluations": len(cases), "distinct_nontrivial": nontrivial, "strata": strata,
        "skipped_by_model": skipped, "disagreements": len(bad),
        "known_findings_matched": sorted(matched),
        "samples": [engine.sample(prop, cases[i], obss[i]) for i in pick],
        "rule": engine.rule(prop), "trusted_base": engine.trusted_base(prop),
        "partial_clauses": engine.partial_clauses(prop), "assumptions": engine.assumptions(prop),
        "correspondence": engine.coq_check(prop) + " evaluated by vm_compute on every case",
    })
    return res


def run_check(prop: str, engine_mods, tier: str, seed: int, replay: str | None = None) -> int:
    t0 = time.time()
    if isinstance(engine_mods, str):
        engine_mods = [engine_mods]
    run_id = f"run-{prop}-{os.getpid()}"
    workdir = os.path.join(VERIF, "build", run_id)
    os.makedirs(workdir, exist_ok=True)
    os.makedirs(os.path.join(VERIF, "evidence", "replays"), exist_ok=True)
    violations = []      # (replay_path, suffix)
    known_lines = []
    parts = []
    try:
        targets = [os.path.relpath(f, COQ)[:-2] + ".vo" for f in _prop_files(prop)]
        for em in engine_mods:
            targets += list(getattr(importlib.import_module(em), "COQ_TARGETS", []))
        built, log = ensure_coq_built(sorted(set(targets)) or None, props=[prop])
        names, discharged, assum = theorem_inventory(prop)
        if not built or discharged != len(names):
            rp = os.path.join(VERIF, "evidence", "replays", f"{prop}-build.json")
            json.dump({"property": prop, "kind": "proof-obligation",
                       "what": "the Coq development (models + theorems) no longer builds",
                       "theorems": names, "log_tail": log}, open(rp, "w"), indent=1)
            violations.append((rp, " no-failing-input-found"))
        replay_case = None
        if replay:
            rdata = json.load(open(replay))
            replay_case = rdata["case"]
            engine_mods = [rdata["engine"]]
        from . import anchors
        anchors_changed = anchors.changed(prop, REPO)
        for k, em in enumerate(engine_mods):
            part = run_part(prop, em, tier, seed + k, os.path.join(workdir, f"p{k}"), replay_case,
                            amplify=bool(anchors_changed))
            parts.append(part)
            violations.extend(part["violations"])
            for l in part["known_lines"]:
                if l not in known_lines:
                    known_lines.append(l)
        # static tie (engines may re-derive from the current source the shape their model assumes)
        static_tie = {}
        if replay_case is None:
            for em in engine_mods:
                fn = getattr(importlib.import_module(em), "static_tie", None)
                if fn is None:
                    continue
                st = fn(prop, REPO)
                if st is None:
                    continue
                static_tie[em.split(".")[-1]] = st
                if st.get("deviations") and not violations:
                    # the model no longer describes the code; the directed search above found no failing input
                    rp = os.path.join(VERIF, "evidence", "replays", f"{prop}-tie.json")
                    json.dump({"property": prop, "engine": em, "kind": "tie-broken",
                               "what": st.get("what", "the source no longer has the shape the model assumes"),
                               "deviations": st["deviations"], "searched": "amplified + search-tier histories found no failing input",
                               "theorems_no_longer_about_the_code": st.get("theorems", [])},
                              open(rp, "w"), indent=1)
                    violations.append((rp, " no-failing-input-found"))
        cov = {
            "obligations": max(len(names), 1), "discharged": discharged, "theorems": names,
            "checker_cmd": "cd /verif/coq && coq_makefile -f _CoqProject -o Makefile theories/*/*.v && make  (Coq 8.16.1 kernel; Print Assumptions under every theorem of theories/Props/%s.v)" % prop,
            "trusted_base": sorted({t for p in parts for t in p["trusted_base"]}),
            "assumptions_reported": assum[:40],
            "evaluations": sum(p["evaluations"] for p in parts),
            "distinct_nontrivial": sum(p["distinct_nontrivial"] for p in parts),
            "rule": " || ".join(p["rule"] for p in parts),
            "strata": {p["engine"].split(".")[-1]: p["strata"] for p in parts},
            "skipped_by_model": sum(p["skipped_by_model"] for p in parts),
            "disagreements": sum(p["disagreements"] for p in parts),
            "known_findings_matched": sorted({k for p in parts for k in p["known_findings_matched"]}),
            "samples": [s for p in parts for s in p["samples"]],
            "partial_clauses": _annotate_closed(prop, [c for p in parts for c in p["partial_clauses"]]),
            "correspondence": [p["correspondence"] for p in parts],
            "anchors_changed": anchors_changed,
            "static_tie": static_tie,
            "implementation_errors_or_timeouts": sum(p.get("timeouts_or_errors", 0) for p in parts),
            "cases_not_run_after_timeouts": sum(p.get("not_run", 0) for p in parts),
        }
        if not names:      # no theorem file yet: do not present proof-level counts
            for k in ("obligations", "discharged", "theorems"):
                cov.pop(k, None)
            cov["no_theorems_yet"] = True
        notes = [n for p in parts for n in p["notes"]]
        if notes:
            cov["notes"] = notes
        ev = {
            "property_id": prop, "tier": "thorough" if tier == "thorough" else "quick", "seed": seed,
            "level": "proof", "coverage": cov,
            "assumptions": sorted({a for p in parts for a in p["assumptions"]}),
            "wall_s": round(time.time() - t0, 2), "violations": len(violations),
        }
        # evidence/ is only for runs against /repo itself; runs against a scratch copy
        # (VERIF_REPO=...) leave their record under build/
        evdir = os.path.join(VERIF, "evidence") if os.path.realpath(REPO) == "/repo" else os.path.join(VERIF, "build", "evidence_other")
        os.makedirs(evdir, exist_ok=True)
        json.dump(ev, open(os.path.join(evdir, f"{prop}.json"), "w"), indent=1, default=str)
    finally:
        shutil.rmtree(workdir, ignore_errors=True)
    for l in known_lines:
        print(l)
    for rp, suffix in violations:
        print(f"VIOLATION property={prop} replay={rp}{suffix}")
    print(f"[{prop}] tier={tier} seed={seed} cases={cov['evaluations']} nontrivial={cov['distinct_nontrivial']} "
          f"theorems={discharged}/{len(names)} violations={len(violations)} wall={time.time() - t0:.1f}s")
    return 1 if violations else 0


def shrink(engine, prop, pool, case, obs, fl, workdir, kf, rounds=12):
    """Greedy shrinking: keep the first smaller candidate that still fails (preferring candidates
    on which the property predicate itself is false)."""
    want_prop = bool(fl & F_PROPFAIL)
    for r in range(rounds):
        cands = list(engine.shrink_candidates(prop, case))[:400]
        if not cands:
            break
        cobs = pool.run(prop, cands)
        cflags, _ = coq_eval(engine, prop, cands, cobs, workdir, tag=f"shrink{r}")
        good = [j for j, f in cflags.items() if f & (F_DISAGREE | F_PROPFAIL)
                and (not want_prop or f & F_PROPFAIL)
                and not any(engine.matches_finding(prop, e, cands[j], cobs[j], f) for e in kf)]
        if not good:
            break
        j = min(good, key=lambda j: engine.size(cands[j]))
        if engine.size(cands[j]) >= engine.size(case):
            break
        case, obs, fl = cands[j], cobs[j], cflags[j]
    return case, obs, fl
