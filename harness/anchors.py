"""Anchor fingerprints: SHA-256 of the docstring-stripped AST of every source file a property is
anchored in (properties.jsonl anchors.files).  A changed fingerprint is never a violation by itself:
it only makes the check spend more cases on that property (change-directed amplification)."""
import ast
import hashlib
import json
import os

VERIF = os.path.dirname(os.path.dirname(os.path.abspath(__file__)))
LOCK = os.path.join(VERIF, "anchors.lock")


def _strip_docstrings(tree):
    for node in ast.walk(tree):
        if isinstance(node, (ast.FunctionDef, ast.AsyncFunctionDef, ast.ClassDef, ast.Module)):
            body = node.body
            if body and isinstance(body[0], ast.Expr) and isinstance(getattr(body[0], "value", None), ast.Constant) \
                    and isinstance(body[0].value.value, str):
                node.body = body[1:] or [ast.Pass()]
    return tree


def fingerprint(path):
    try:
        src = open(path).read()
        return hashlib.sha256(ast.dump(_strip_docstrings(ast.parse(src))).encode()).hexdigest()
    except Exception as e:  # unparsable source is certainly "changed"
        return "unparsable:" + type(e).__name__


def anchor_files(prop):
    for l in open(os.path.join(VERIF, "properties.jsonl")):
        p = json.loads(l)
        if p["id"] == prop:
            return [f for f in p["anchors"]["files"] if f.endswith(".py")]
    return []


def current(prop, repo):
    return {f: fingerprint(os.path.join(repo, f)) for f in anchor_files(prop)}


def changed(prop, repo):
    """files of this property's anchors whose fingerprint differs from anchors.lock"""
    if not os.path.exists(LOCK):
        return []
    lock = json.load(open(LOCK))
    cur = current(prop, repo)
    return sorted(f for f, h in cur.items() if lock.get(f) != h)


def write_lock(repo):
    files = set()
    for l in open(os.path.join(VERIF, "properties.jsonl")):
        files.update(f for f in json.loads(l)["anchors"]["files"] if f.endswith(".py"))
    json.dump({f: fingerprint(os.path.join(repo, f)) for f in sorted(files)}, open(LOCK, "w"), indent=1)


if __name__ == "__main__":
    write_lock(os.environ.get("VERIF_REPO", "/repo"))
    print("wrote", LOCK)
